package core

import (
	"bytes"
	"fmt"
	"os"
	"path/filepath"
	"time"
)

// Corruption is one way of falsifying a recorded trace: it returns the corrupted lines, or nil if it does not apply.
type Corruption struct {
	Name string
	Do   func(lines [][]byte) [][]byte
}

// BindingSelfTest guards against a trace specification that accepts too much (a specification nothing binds to the
// code): the recorded trace must be accepted as it is, and every corruption of it - a dropped callback, a flipped
// result, a foreign value - must be rejected.  A failure is an error of the machinery (exit 2), never a verdict on ebu.
func (r *Run) BindingSelfTest(name, module, config string, lines [][]byte, cs []Corruption) {
	write := func(tag string, ls [][]byte) string {
		var buf bytes.Buffer
		for _, l := range ls {
			buf.Write(l)
			buf.WriteByte('\n')
		}
		f := filepath.Join(r.Work, fmt.Sprintf("selftest-%s-%s.ndjson", name, tag))
		os.WriteFile(f, buf.Bytes(), 0o644)
		return f
	}
	v, err := r.ValidateTraceCfg(module, config, write("orig", lines), len(lines), 5*time.Minute)
	if err != nil {
		r.Infra("binding self-test %s: %v", name, err)
		return
	}
	if !v.Accepted {
		return // the trace itself is not accepted: that is reported by the check proper, not here
	}
	applied, rejected := 0, 0
	var names []string
	for i, c := range cs {
		cl := c.Do(lines)
		if cl == nil {
			continue
		}
		applied++
		cv, err := r.ValidateTraceCfg(module, config, write(fmt.Sprint(i), cl), len(cl), 5*time.Minute)
		if err != nil { // TLC could not even evaluate the corrupted trace: not an acceptance
			r.Logf("binding self-test %s/%s: not evaluable (%v)", name, c.Name, err)
			rejected++
			names = append(names, c.Name)
			continue
		}
		if cv.Accepted {
			r.Infra("binding self-test %s: the trace specification %s accepted a corrupted trace (%s)", name, module, c.Name)
			continue
		}
		rejected++
		names = append(names, c.Name)
	}
	r.Logf("binding self-test %s: %d of %d corrupted traces rejected by %s", name, rejected, applied, module)
	r.mu.Lock()
	st, _ := r.Extra["binding_self_tests"].([]any)
	r.Extra["binding_self_tests"] = append(st, map[string]any{"trace_spec": module, "trace": name, "corruptions_applied": applied, "rejected": rejected, "kinds": names})
	r.mu.Unlock()
	if applied == 0 {
		r.Logf("binding self-test %s: no corruption applied to the sample trace", name)
	}
}

// DropFirst drops the first line containing the needle.
func DropFirst(needle string) func([][]byte) [][]byte {
	return func(lines [][]byte) [][]byte {
		for i, l := range lines {
			if bytes.Contains(l, []byte(needle)) {
				out := append([][]byte{}, lines[:i]...)
				return append(out, lines[i+1:]...)
			}
		}
		return nil
	}
}

// DupFirst repeats the first line containing the needle.
func DupFirst(needle string) func([][]byte) [][]byte {
	return func(lines [][]byte) [][]byte {
		for i, l := range lines {
			if bytes.Contains(l, []byte(needle)) {
				out := append([][]byte{}, lines[:i+1]...)
				out = append(out, l)
				return append(out, lines[i+1:]...)
			}
		}
		return nil
	}
}

// ReplaceFirst replaces old by new in the first line that contains both the needle and old.
func ReplaceFirst(needle, old, new string) func([][]byte) [][]byte {
	return func(lines [][]byte) [][]byte {
		for i, l := range lines {
			if bytes.Contains(l, []byte(needle)) && bytes.Contains(l, []byte(old)) {
				out := append([][]byte{}, lines...)
				out[i] = bytes.Replace(l, []byte(old), []byte(new), 1)
				return out
			}
		}
		return nil
	}
}

// SwapWithNext swaps the first line containing the needle with the line after it.
func SwapWithNext(needle string) func([][]byte) [][]byte {
	return func(lines [][]byte) [][]byte {
		for i, l := range lines {
			if bytes.Contains(l, []byte(needle)) && i+1 < len(lines) {
				out := append([][]byte{}, lines...)
				out[i], out[i+1] = out[i+1], out[i]
				return out
			}
		}
		return nil
	}
}

// InsertIntoArray puts elem in front of the JSON array that follows key in the first line containing the needle.
func InsertIntoArray(needle, key, elem string) func([][]byte) [][]byte {
	return func(lines [][]byte) [][]byte {
		k := []byte(`"` + key + `":[`)
		for i, l := range lines {
			j := bytes.Index(l, k)
			if !bytes.Contains(l, []byte(needle)) || j < 0 {
				continue
			}
			at := j + len(k)
			ins := elem + ","
			if at < len(l) && l[at] == ']' {
				ins = elem
			}
			out := append([][]byte{}, lines...)
			nl := append([]byte{}, l[:at]...)
			nl = append(nl, ins...)
			out[i] = append(nl, l[at:]...)
			return out
		}
		return nil
	}
}
