package core

import (
	"bytes"
	"context"
	"fmt"
	"os"
	"os/exec"
	"path/filepath"
	"regexp"
	"strconv"
	"strings"
	"sync/atomic"
	"time"
)

const tlaJars = "/opt/veriftools/tla/tla2tools.jar:/opt/veriftools/tla/CommunityModules-deps.jar"

// TLCOpts describes one TLC run.
type TLCOpts struct {
	Module   string        // root module (without .tla)
	Config   string        // config file (default Module.cfg)
	Workers  int           // default 16
	Timeout  time.Duration // default 10 min
	Args     []string      // extra TLC arguments (-simulate ..., -depth ..., -coverage 1)
	Env      map[string]string
	DFS      bool   // depth-first state queue (trace validation)
	HeapMB   int    // -Xmx, default 12000
	Files    map[string]string // extra files to drop next to the spec (name -> content)
	KeepDir  bool
}

// TLCResult is what a run produced.
type TLCResult struct {
	Out       string
	Generated int64
	Distinct  int64
	Status    string // ok | invariant | deadlock | property | postcondition | error | timeout
	Violated  string
	Printed   []string // lines printed by PrintT that are not TLC's own messages
	Dir       string
	Wall      time.Duration
}

var (
	reStates   = regexp.MustCompile(`(\d+) states generated, (\d+) distinct states found`)
	reInv      = regexp.MustCompile(`Error: (?:Invariant (\S+) is violated|The invariant of (\S+) is equal to FALSE)`)
	reProp     = regexp.MustCompile(`Error: (?:Action|Temporal) propert(?:y|ies) (\S*)`)
	tlcCounter atomic.Int64
)

// TLC runs the model checker in a scratch copy of /verif/spec.
func (r *Run) TLC(o TLCOpts) (*TLCResult, error) {
	if o.Config == "" {
		o.Config = o.Module + ".cfg"
	}
	if o.Workers == 0 {
		o.Workers = 16
	}
	if o.Timeout == 0 {
		o.Timeout = 10 * time.Minute
	}
	if o.HeapMB == 0 {
		o.HeapMB = 12000
	}
	dir := filepath.Join(r.Work, fmt.Sprintf("tlc-%d", tlcCounter.Add(1)))
	if err := os.MkdirAll(dir, 0o755); err != nil {
		return nil, err
	}
	ents, err := os.ReadDir(filepath.Join(VerifDir, "spec"))
	if err != nil {
		return nil, err
	}
	for _, e := range ents {
		n := e.Name()
		if strings.HasSuffix(n, ".tla") || strings.HasSuffix(n, ".cfg") {
			b, err := os.ReadFile(filepath.Join(VerifDir, "spec", n))
			if err != nil {
				return nil, err
			}
			if err := os.WriteFile(filepath.Join(dir, n), b, 0o644); err != nil {
				return nil, err
			}
		}
	}
	for n, c := range o.Files {
		if err := os.WriteFile(filepath.Join(dir, n), []byte(c), 0o644); err != nil {
			return nil, err
		}
	}
	args := []string{"-XX:+UseParallelGC", fmt.Sprintf("-Xmx%dm", o.HeapMB), "-Xss256m", "-Djava.io.tmpdir=" + dir} // TLC's own temporary directories stay in the scratch directory
	if o.DFS {
		args = append(args, "-Dtlc2.tool.queue.IStateQueue=StateDeque")
	}
	args = append(args, "-cp", tlaJars, "tlc2.TLC", "-workers", strconv.Itoa(o.Workers), "-metadir", filepath.Join(dir, "meta"),
		"-config", o.Config, "-noGenerateSpecTE")
	args = append(args, o.Args...)
	args = append(args, o.Module+".tla")
	ctx, cancel := context.WithTimeout(context.Background(), o.Timeout)
	defer cancel()
	cmd := exec.CommandContext(ctx, "java", args...)
	cmd.Dir = dir
	cmd.Env = os.Environ()
	for k, v := range o.Env {
		cmd.Env = append(cmd.Env, k+"="+v)
	}
	var buf bytes.Buffer
	cmd.Stdout = &buf
	cmd.Stderr = &buf
	start := time.Now()
	runErr := cmd.Run()
	res := &TLCResult{Out: buf.String(), Dir: dir, Wall: time.Since(start)}
	if ms := reStates.FindAllStringSubmatch(res.Out, -1); len(ms) > 0 {
		m := ms[len(ms)-1]
		res.Generated, _ = strconv.ParseInt(m[1], 10, 64)
		res.Distinct, _ = strconv.ParseInt(m[2], 10, 64)
	}
	for _, line := range strings.Split(res.Out, "\n") {
		if strings.HasPrefix(line, "{") || strings.HasPrefix(line, "[{") || strings.HasPrefix(line, "<<\"") || strings.HasPrefix(line, "\"{") || strings.HasPrefix(line, "\"[") {
			res.Printed = append(res.Printed, line)
		}
	}
	switch {
	case ctx.Err() == context.DeadlineExceeded:
		res.Status = "timeout"
	case reInv.MatchString(res.Out):
		res.Status = "invariant"
		m := reInv.FindStringSubmatch(res.Out)
		res.Violated = m[1] + m[2]
	case strings.Contains(res.Out, "Error: Deadlock reached"):
		res.Status = "deadlock"
	case strings.Contains(res.Out, "Temporal properties were violated") || strings.Contains(res.Out, "Error: Action property"):
		res.Status = "property"
	case strings.Contains(res.Out, "Error: The postcondition") || strings.Contains(res.Out, "postcondition is violated"):
		res.Status = "postcondition"
	case strings.Contains(res.Out, "Model checking completed. No error has been found") || (runErr == nil && strings.Contains(res.Out, "Finished in")):
		res.Status = "ok"
	default:
		res.Status = "error"
	}
	if !o.KeepDir && os.Getenv("VERIF_KEEP") == "" {
		os.RemoveAll(filepath.Join(dir, "meta"))
		os.RemoveAll(filepath.Join(dir, "states"))
	}
	return res, nil
}

// MustHold runs an exhaustive configuration and expects TLC to find no error.  A counterexample on
// a model is a lead, not a verdict: it is reported as an infrastructure problem of the check.
func (r *Run) MustHold(o TLCOpts) *TLCResult {
	res, err := r.TLC(o)
	if err != nil {
		r.Infra("tlc %s: %v", o.Module, err)
		return nil
	}
	r.Logf("TLC %s/%s: %s, %d distinct / %d generated states, %.1fs", o.Module, o.Config, res.Status, res.Distinct, res.Generated, res.Wall.Seconds())
	r.noteTLC(map[string]any{"module": o.Module, "config": o.Config, "expect": "no error", "status": res.Status, "distinct_states": res.Distinct, "generated_states": res.Generated, "wall_s": res.Wall.Seconds()})
	if res.Status != "ok" {
		r.Infra("TLC run %s (%s) ended with status %s %s (model-level result only; tail: %s)", o.Module, o.Config, res.Status, res.Violated, tail(res.Out, 1500))
		return res
	}
	r.AddTLC(res)
	return res
}

// MustFail runs a design-mutant configuration: TLC must find a violation (non-vacuity of the invariants).
func (r *Run) MustFail(o TLCOpts, wantInvariant string) bool {
	res, err := r.TLC(o)
	if err != nil {
		r.Infra("tlc %s: %v", o.Module, err)
		return false
	}
	ok := res.Status == "invariant" && (wantInvariant == "" || res.Violated == wantInvariant)
	if wantInvariant == "deadlock" {
		ok = res.Status == "deadlock"
	}
	r.Logf("TLC mutant %s/%s: %s %s (want %s) %.1fs", o.Module, o.Config, res.Status, res.Violated, wantInvariant, res.Wall.Seconds())
	r.noteTLC(map[string]any{"module": o.Module, "config": o.Config, "expect": "design mutant / as-is variant: TLC must find a violation", "status": res.Status, "violated": res.Violated, "wall_s": res.Wall.Seconds()})
	if !ok {
		r.Infra("design mutant %s/%s was not caught: status %s %s; tail: %s", o.Module, o.Config, res.Status, res.Violated, tail(res.Out, 800))
	}
	return ok
}

func tail(s string, n int) string {
	if len(s) > n {
		return "..." + s[len(s)-n:]
	}
	return s
}

var reHigh = regexp.MustCompile(`"HIGHWATER", (\d+)`)

// TraceVerdict is the result of validating one trace file.
type TraceVerdict struct {
	Accepted  bool
	HighWater int // number of trace lines consumed on the longest explained prefix
	Lines     int
	Res       *TLCResult
}

// ValidateTrace checks that the NDJSON trace is a behaviour of the trace specification `module`.
func (r *Run) ValidateTrace(module, traceFile string, lines int, timeout time.Duration) (*TraceVerdict, error) {
	return r.ValidateTraceCfg(module, "", traceFile, lines, timeout)
}

// ValidateTraceCfg is ValidateTrace with an explicit configuration file.
func (r *Run) ValidateTraceCfg(module, config, traceFile string, lines int, timeout time.Duration) (*TraceVerdict, error) {
	res, err := r.TLC(TLCOpts{Module: module, Config: config, Workers: 1, DFS: true, Timeout: timeout, HeapMB: 6000,
		Env: map[string]string{"TRACE": traceFile}})
	if err != nil {
		return nil, err
	}
	v := &TraceVerdict{Lines: lines, Res: res}
	if m := reHigh.FindAllStringSubmatch(res.Out, -1); len(m) > 0 {
		hw, _ := strconv.Atoi(m[len(m)-1][1])
		v.HighWater = hw - 1
	}
	switch {
	case strings.Contains(res.Out, "TRACE_ACCEPTED"):
		v.Accepted = true
		v.HighWater = lines
	case res.Status == "ok" || res.Status == "postcondition":
		v.Accepted = false
	default:
		return v, fmt.Errorf("trace validation of %s with %s failed to run: status %s: %s", traceFile, module, res.Status, tail(res.Out, 1500))
	}
	return v, nil
}

// Tail returns the last n bytes of s.
func Tail(s string, n int) string { return tail(s, n) }
