// Package core holds what every check shares: the run context (tier, seed, scratch
// directory), the TLC runner, verdict bookkeeping (violations, known findings) and the
// evidence writer.
package core

import (
	"bufio"
	"encoding/json"
	"fmt"
	"os"
	"path/filepath"
	"runtime"
	"sort"
	"strconv"
	"strings"
	"sync"
	"time"
)

// VerifDir is the root of the verification tree: the directory ./check runs in (normally /verif; a snapshot
// worktree when started through `vp run`).
var VerifDir = func() string {
	if d := os.Getenv("VERIF_DIR"); d != "" {
		return d
	}
	if wd, err := os.Getwd(); err == nil {
		if _, err := os.Stat(filepath.Join(wd, "spec")); err == nil {
			return wd
		}
	}
	return "/verif"
}()

// Exit codes of a check.
const (
	ExitOK        = 0
	ExitViolation = 1
	ExitInfra     = 2 // tooling failure, never a verdict about ebu
)

// Violation is one disagreement between the real code and the specification.
type Violation struct {
	Clause   string // which clause of the property
	Scenario string // scenario class (call site / option combination / store / history shape)
	Detail   string
	Replay   string // path of the replay artefact
}

func (v Violation) Fingerprint(prop string) string { return prop + "|" + v.Clause + "|" + v.Scenario }

type finding struct {
	Kind        string `json:"kind"` // "finding" or "fixed"
	Property    string `json:"property"`
	Fingerprint string `json:"fingerprint"`
	What        string `json:"what"`
	Commit      string `json:"commit,omitempty"`
}

// Run is the context of one check execution.
type Run struct {
	Prop  string
	Tier  string
	Seed  int64
	Work  string // scratch directory, removed by Finish
	Start time.Time
	Level string
	Evidence bool // write the evidence file (false for replays)

	mu         sync.Mutex
	States     int64
	Trans      int64
	Traces     int
	Evals      int
	distinct   map[string]struct{}
	Samples    []any
	Rule       string
	Exhaustive bool
	Extra      map[string]any
	Assume     []string
	viol       []Violation
	known      map[string]string
	knownSeen  map[string]bool
	infraErr   []string
}

func envInt(name string, def int64) int64 {
	if s := os.Getenv(name); s != "" {
		if v, err := strconv.ParseInt(s, 10, 64); err == nil {
			return v
		}
	}
	return def
}

// NewRun creates the run context; the scratch directory lives under /verif/.work.
func NewRun(prop, tier string) *Run {
	if t := os.Getenv("VERIF_TIER"); t == "quick" || t == "thorough" {
		if tier == "" {
			tier = t
		}
	}
	if tier == "" {
		tier = "quick"
	}
	r := &Run{Prop: prop, Tier: tier, Seed: envInt("VERIF_SEED", 1), Start: time.Now(), Level: "model_checking", Evidence: true,
		distinct: map[string]struct{}{}, Extra: map[string]any{}, known: map[string]string{}, knownSeen: map[string]bool{}}
	base := filepath.Join(VerifDir, ".work")
	os.MkdirAll(base, 0o755)
	w, err := os.MkdirTemp(base, prop+"-")
	if err != nil {
		fmt.Fprintln(os.Stderr, "cannot create scratch dir:", err)
		os.Exit(ExitInfra)
	}
	r.Work = w
	r.loadKnown()
	return r
}

func (r *Run) Thorough() bool { return r.Tier == "thorough" }

// Pick returns q for the quick tier and t for the thorough tier.
func (r *Run) Pick(q, t int) int {
	if r.Thorough() {
		return t
	}
	return q
}

func (r *Run) loadKnown() {
	f, err := os.Open(filepath.Join(VerifDir, "known_findings.jsonl"))
	if err != nil {
		return
	}
	defer f.Close()
	sc := bufio.NewScanner(f)
	sc.Buffer(make([]byte, 1<<20), 1<<20)
	for sc.Scan() {
		line := strings.TrimSpace(sc.Text())
		if line == "" || strings.HasPrefix(line, "#") {
			continue
		}
		var fd finding
		if json.Unmarshal([]byte(line), &fd) != nil {
			continue
		}
		if fd.Kind == "finding" && fd.Property == r.Prop {
			r.known[fd.Fingerprint] = fd.What
		}
	}
}

func (r *Run) Logf(format string, a ...any) {
	fmt.Fprintf(os.Stderr, "[%s %6.1fs] %s\n", r.Prop, time.Since(r.Start).Seconds(), fmt.Sprintf(format, a...))
}

// Infra records a tooling failure (exit 2 unless a violation was also found).
func (r *Run) Infra(format string, a ...any) {
	r.mu.Lock()
	defer r.mu.Unlock()
	msg := fmt.Sprintf(format, a...)
	r.infraErr = append(r.infraErr, msg)
	fmt.Fprintf(os.Stderr, "[%s] INFRA: %s\n", r.Prop, msg)
}

// Case counts one executed case; key identifies it for the distinct count ("" = trivial).
func (r *Run) Case(key string) {
	r.mu.Lock()
	defer r.mu.Unlock()
	r.Evals++
	if key != "" {
		r.distinct[key] = struct{}{}
	}
}

func (r *Run) Sample(s any) {
	r.mu.Lock()
	defer r.mu.Unlock()
	if len(r.Samples) < 6 {
		r.Samples = append(r.Samples, s)
	}
}

func (r *Run) AddTLC(res *TLCResult) {
	r.mu.Lock()
	defer r.mu.Unlock()
	r.States += res.Distinct
	r.Trans += res.Generated
}

func (r *Run) noteTLC(m map[string]any) {
	r.mu.Lock()
	defer r.mu.Unlock()
	runs, _ := r.Extra["tlc_runs"].([]any)
	r.Extra["tlc_runs"] = append(runs, m)
}

// Note records an extra key in the evidence's coverage.
func (r *Run) Note(key string, v any) {
	r.mu.Lock()
	defer r.mu.Unlock()
	r.Extra[key] = v
}

func (r *Run) AddTraces(n int) {
	r.mu.Lock()
	defer r.mu.Unlock()
	r.Traces += n
}

// SaveReplay stores an artefact under /verif/replays/<prop>/ and returns its path.
func (r *Run) SaveReplay(name string, content []byte) string {
	dir := filepath.Join(VerifDir, "replays", r.Prop)
	os.MkdirAll(dir, 0o755)
	p := filepath.Join(dir, fmt.Sprintf("%s-seed%d-%s", r.Tier, r.Seed, name))
	if err := os.WriteFile(p, content, 0o644); err != nil {
		r.Infra("cannot write replay %s: %v", p, err)
	}
	return p
}

// IsKnown tells whether a fingerprint is a listed finding.
func (r *Run) IsKnown(v Violation) bool {
	_, ok := r.known[v.Fingerprint(r.Prop)]
	return ok
}

// Violate reports a disagreement observed on the real code.
func (r *Run) Violate(v Violation) {
	r.mu.Lock()
	defer r.mu.Unlock()
	fp := v.Fingerprint(r.Prop)
	if what, ok := r.known[fp]; ok {
		if !r.knownSeen[fp] {
			r.knownSeen[fp] = true
			fmt.Printf("KNOWN-FINDING: property=%s %s [%s]\n", r.Prop, what, fp)
		}
		return
	}
	for _, o := range r.viol {
		if o.Fingerprint(r.Prop) == fp {
			return // one line per fingerprint
		}
	}
	r.viol = append(r.viol, v)
	fmt.Printf("VIOLATION property=%s replay=%s\n", r.Prop, v.Replay)
	fmt.Printf("  clause=%s scenario=%s\n  %s\n", v.Clause, v.Scenario, strings.ReplaceAll(v.Detail, "\n", "\n  "))
}

func (r *Run) Violations() int { r.mu.Lock(); defer r.mu.Unlock(); return len(r.viol) }

// Finish writes the evidence file, removes the scratch directory and returns the exit code.
func (r *Run) Finish() int {
	r.mu.Lock()
	defer r.mu.Unlock()
	cov := map[string]any{
		"states":                        r.States,
		"transitions":                   r.Trans,
		"traces_validated_against_impl": r.Traces,
		"evaluations":                   r.Evals,
		"distinct_nontrivial":           len(r.distinct),
		"rule":                          r.Rule,
		"samples":                       r.Samples,
		"exhaustive":                    r.Exhaustive,
	}
	for k, v := range r.Extra {
		cov[k] = v
	}
	var kf []string
	for fp := range r.knownSeen {
		kf = append(kf, fp)
	}
	sort.Strings(kf)
	if kf == nil {
		kf = []string{}
	}
	cov["known_findings_reproduced"] = kf
	if len(r.Samples) == 0 {
		cov["samples"] = []any{"(no case executed)"}
	}
	ev := map[string]any{
		"property_id": r.Prop, "tier": r.Tier, "seed": r.Seed, "level": r.Level,
		"coverage": cov, "assumptions": r.Assume, "wall_s": time.Since(r.Start).Seconds(), "violations": len(r.viol),
	}
	if r.Assume == nil {
		ev["assumptions"] = []string{}
	}
	os.MkdirAll(filepath.Join(VerifDir, "evidence"), 0o755)
	b, _ := json.MarshalIndent(ev, "", " ")
	if r.Evidence {
		if err := os.WriteFile(filepath.Join(VerifDir, "evidence", r.Prop+".json"), b, 0o644); err != nil {
			fmt.Fprintln(os.Stderr, "cannot write evidence:", err)
			return ExitInfra
		}
	}
	if os.Getenv("VERIF_KEEP") == "" {
		os.RemoveAll(r.Work)
	}
	fmt.Fprintf(os.Stderr, "[%s] tier=%s seed=%d states=%d transitions=%d traces=%d evaluations=%d distinct=%d violations=%d known=%d wall=%.1fs\n",
		r.Prop, r.Tier, r.Seed, r.States, r.Trans, r.Traces, r.Evals, len(r.distinct), len(r.viol), len(kf), time.Since(r.Start).Seconds())
	if len(r.viol) > 0 {
		return ExitViolation
	}
	if len(r.infraErr) > 0 {
		return ExitInfra
	}
	return ExitOK
}

// AllStacks returns the stacks of all goroutines (hang reports).
func AllStacks() string {
	buf := make([]byte, 1<<20)
	n := runtime.Stack(buf, true)
	return string(buf[:n])
}
