package core

import (
	"bytes"
	"fmt"
	"os"
	"path/filepath"
	"time"
)

// Segment is one self-contained execution inside a concatenated trace file (it starts with the
// trace specification's reset line).
type Segment struct {
	Label string
	Lines [][]byte
	Meta  any
}

// SegReject describes the first unexplained line of a rejected segment.
type SegReject struct {
	Seg  Segment
	Line int // 1-based within the segment
	Text string
	Prev []string
}

// ValidateSegments validates the concatenation of the segments against a trace specification.  Each
// rejected segment is handed to onReject and dropped; validation continues with the segments after it.
// onReject may return a replacement for the rejected segment (the line of a listed finding patched), which
// is then validated in its place.  It returns the number of accepted segments.
func (r *Run) ValidateSegments(name, module, config string, segs []Segment, onReject func(SegReject) *Segment) int {
	accepted := 0
	rejections := 0
	patched := 0
	for len(segs) > 0 && rejections < 10 {
		var buf bytes.Buffer
		total := 0
		for _, s := range segs {
			for _, l := range s.Lines {
				buf.Write(l)
				buf.WriteByte('\n')
				total++
			}
		}
		tf := filepath.Join(r.Work, name+"-validate.ndjson")
		os.WriteFile(tf, buf.Bytes(), 0o644)
		v, err := r.ValidateTraceCfg(module, config, tf, total, 20*time.Minute)
		if err != nil {
			r.Infra("%v", err)
			return accepted
		}
		r.AddTLC(v.Res)
		r.Logf("validated %s: %d segments, %d lines, accepted=%v highwater=%d, %d states, %.1fs", name, len(segs), total, v.Accepted, v.HighWater, v.Res.Distinct, v.Res.Wall.Seconds())
		if v.Accepted {
			accepted += len(segs)
			r.AddTraces(len(segs))
			return accepted
		}
		bad := v.HighWater + 1
		cum, k := 0, -1
		for i, s := range segs {
			if bad <= cum+len(s.Lines) {
				k = i
				break
			}
			cum += len(s.Lines)
		}
		if k < 0 {
			r.Infra("trace %s rejected but high-water mark %d is outside the trace (%d lines): %s", name, v.HighWater, total, tail(v.Res.Out, 1200))
			return accepted
		}
		rej := SegReject{Seg: segs[k], Line: bad - cum}
		if rej.Line >= 1 && rej.Line <= len(segs[k].Lines) {
			rej.Text = string(segs[k].Lines[rej.Line-1])
		}
		for i := max(0, rej.Line-9); i < rej.Line-1 && i < len(segs[k].Lines); i++ {
			rej.Prev = append(rej.Prev, string(segs[k].Lines[i]))
		}
		accepted += k
		r.AddTraces(k)
		rejections++
		if repl := onReject(rej); repl != nil {
			// the rejection was dealt with (a listed finding): validate the rest of this segment with the
			// patched line
			segs = append([]Segment{*repl}, segs[k+1:]...)
			rejections--
			patched++
			if patched > 60 {
				r.Infra("too many patched rejections in %s", name)
				return accepted
			}
			continue
		}
		segs = segs[k+1:]
	}
	return accepted
}

// SegTrace renders a segment as one NDJSON string.
func SegTrace(s Segment) string {
	var b bytes.Buffer
	for _, l := range s.Lines {
		b.Write(l)
		b.WriteByte('\n')
	}
	return b.String()
}

var _ = fmt.Sprintf
