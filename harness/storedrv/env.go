// Package storedrv drives the bundled event stores (memory, SQLite, durable-streams) and records
// every store call with its results as NDJSON for validation against spec/LogTrace.tla.
package storedrv

import (
	"fmt"
	"net/http"
	"net/http/httptest"
	"os"
	"path/filepath"
	"sync"
	"time"

	"github.com/ahimsalabs/durable-streams-go/durablestream"
	"github.com/ahimsalabs/durable-streams-go/durablestream/memorystorage"
	eb "github.com/jilio/ebu"
	ds "github.com/jilio/ebu/stores/durablestream"
	"github.com/jilio/ebu/stores/sqlite"
)

// Kinds of store environments.
var Kinds = []string{"memory", "sqlite-file", "sqlite-mem", "sqlite-batch2", "sqlite-batch5", "durable"}

// Metrics records the SQLite store's MetricsHook callbacks (one recorder per store).
type Metrics struct {
	mu    sync.Mutex
	Calls []MetricCall
}

// MetricCall is one MetricsHook callback.
type MetricCall struct {
	Kind  string
	Count int
	Err   bool
}

func (m *Metrics) add(c MetricCall) { m.mu.Lock(); m.Calls = append(m.Calls, c); m.mu.Unlock() }
func (m *Metrics) OnAppend(d time.Duration, err error) { m.add(MetricCall{"append", 0, err != nil}) }
func (m *Metrics) OnRead(d time.Duration, n int, err error) { m.add(MetricCall{"read", n, err != nil}) }
func (m *Metrics) OnSaveOffset(d time.Duration, err error) { m.add(MetricCall{"save", 0, err != nil}) }
func (m *Metrics) OnLoadOffset(d time.Duration, err error) { m.add(MetricCall{"load", 0, err != nil}) }

// Take returns and clears the callbacks recorded so far.
func (m *Metrics) Take() []MetricCall {
	m.mu.Lock()
	defer m.mu.Unlock()
	c := m.Calls
	m.Calls = nil
	return c
}

// Env is a set of separately created stores of one kind.
type Env struct {
	Kind    string
	Metrics []*Metrics // per store; nil entries for stores without a metrics hook
	Stores  []eb.EventStore
	Partial bool // unlimited Read may return a non-empty prefix (server pages)
	cleanup []func()
}

func (e *Env) Close() {
	for i := len(e.cleanup) - 1; i >= 0; i-- {
		e.cleanup[i]()
	}
}

var envCounter int

// NewEnv creates n separately created stores of the kind; dir is a scratch directory.
func NewEnv(kind, dir string, n int, chunk int) (*Env, error) {
	e := &Env{Kind: kind}
	envCounter++
	for i := 0; i < n; i++ {
		switch kind {
		case "memory":
			e.Stores = append(e.Stores, eb.NewMemoryStore())
		case "sqlite-file", "sqlite-batch2", "sqlite-batch5":
			p := filepath.Join(dir, fmt.Sprintf("db-%d-%d.sqlite", envCounter, i))
			var opts []sqlite.Option
			mh := &Metrics{}
			opts = append(opts, sqlite.WithMetricsHook(mh))
			e.Metrics = append(e.Metrics, mh)
			if kind == "sqlite-batch2" {
				opts = append(opts, sqlite.WithStreamBatchSize(2))
			}
			if kind == "sqlite-batch5" {
				opts = append(opts, sqlite.WithStreamBatchSize(5))
			}
			s, err := sqlite.New(p, opts...)
			if err != nil {
				return nil, err
			}
			e.Stores = append(e.Stores, s)
			e.cleanup = append(e.cleanup, func() { s.Close(); os.Remove(p); os.Remove(p + "-wal"); os.Remove(p + "-shm") })
		case "sqlite-mem":
			s, err := sqlite.New(":memory:")
			if err != nil {
				return nil, err
			}
			e.Stores = append(e.Stores, s)
			e.cleanup = append(e.cleanup, func() { s.Close() })
		case "durable":
			e.Partial = true
			if chunk <= 0 {
				chunk = 600
			}
			h := durablestream.NewHandler(memorystorage.New(), &durablestream.HandlerConfig{ChunkSize: chunk})
			mux := http.NewServeMux()
			mux.Handle("/v1/stream/", http.StripPrefix("/v1/stream/", h))
			srv := httptest.NewServer(mux)
			e.cleanup = append(e.cleanup, srv.Close)
			s, err := ds.New(srv.URL+"/v1/stream", fmt.Sprintf("stream-%d", i))
			if err != nil {
				return nil, err
			}
			e.Stores = append(e.Stores, s)
		default:
			return nil, fmt.Errorf("unknown store kind %q", kind)
		}
	}
	return e, nil
}
