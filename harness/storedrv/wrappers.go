package storedrv

import (
	"context"
	"errors"
	"iter"
	"sync/atomic"

	eb "github.com/jilio/ebu"
)

// ErrInjected is the store failure injected by the wrappers.
var ErrInjected = errors.New("verif: injected store failure")

// PagedOnly hides the streaming interface of a store, so that bus.Replay takes its paged path.
type PagedOnly struct{ Inner eb.EventStore }

func (p PagedOnly) Append(ctx context.Context, e *eb.Event) (eb.Offset, error) { return p.Inner.Append(ctx, e) }
func (p PagedOnly) Read(ctx context.Context, from eb.Offset, limit int) ([]*eb.StoredEvent, eb.Offset, error) {
	return p.Inner.Read(ctx, from, limit)
}

// Probe counts calls and injects failures.  FailRead = j fails the j-th Read; FailElem = k makes the
// stream yield an error in place of its k-th element.  OnFault is called when a failure is injected.
type Probe struct {
	Inner    eb.EventStore
	Appends  atomic.Int64
	Reads    atomic.Int64
	FailRead int64
	FailElem int
	OnFault  func()
	OnRead   func(from eb.Offset, limit int, n int, next eb.Offset, err error)
}

func (p *Probe) Append(ctx context.Context, e *eb.Event) (eb.Offset, error) {
	p.Appends.Add(1)
	return p.Inner.Append(ctx, e)
}
func (p *Probe) Read(ctx context.Context, from eb.Offset, limit int) ([]*eb.StoredEvent, eb.Offset, error) {
	n := p.Reads.Add(1)
	if p.FailRead > 0 && n == p.FailRead {
		if p.OnFault != nil {
			p.OnFault()
		}
		return nil, from, ErrInjected
	}
	evs, next, err := p.Inner.Read(ctx, from, limit)
	if p.OnRead != nil {
		p.OnRead(from, limit, len(evs), next, err)
	}
	return evs, next, err
}

// StreamProbe is a Probe that also streams (only usable when Inner streams).
type StreamProbe struct{ *Probe }

func (p StreamProbe) ReadStream(ctx context.Context, from eb.Offset) iter.Seq2[*eb.StoredEvent, error] {
	inner := p.Inner.(eb.EventStoreStreamer).ReadStream(ctx, from)
	return func(yield func(*eb.StoredEvent, error) bool) {
		k := 0
		for e, err := range inner {
			k++
			if err == nil && p.FailElem > 0 && k == p.FailElem {
				if p.OnFault != nil {
					p.OnFault()
				}
				yield(nil, ErrInjected)
				return
			}
			if !yield(e, err) {
				return
			}
		}
	}
}

// WrapProbe returns the probe as an EventStore that streams iff inner does.
func WrapProbe(p *Probe) eb.EventStore {
	if _, ok := p.Inner.(eb.EventStoreStreamer); ok {
		return StreamProbe{p}
	}
	return p
}
