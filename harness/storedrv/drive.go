package storedrv

import (
	"bytes"
	"context"
	"encoding/json"
	"fmt"
	"math/rand/v2"
	"reflect"
	"strings"
	"sync"
	"sync/atomic"
	"time"

	eb "github.com/jilio/ebu"
)

// Opts steers one random driver run against an Env.
type Opts struct {
	Ops        int
	MaxAppends int   // per store (0 = unlimited)
	Limits     []int // limits used by Read
	EventToks  bool  // resume from the offsets of returned events too (not only from next offsets)
	Streams    bool
	Zones      bool // timestamps in named / unnamed / odd zones
	SecondsZone bool // zone offsets that are not a whole number of minutes
	Concurrent  int  // up to 1+Concurrent goroutines append concurrently at the start of some runs
	ConcurrentAlways bool // ... of every run, with more appends each
	NoHugeNumbers bool // no number literals beyond float64 (the third-party durable-streams test server rejects them)
	Cancelled  float64 // probability that an operation is called with an already cancelled context (it then either
	                   // works normally or fails without any effect: a "refused" line)
}

type want struct {
	typ   string
	data  []byte
	ts    time.Time
	anyTS bool // the timestamp is chosen by the bus (time.Now())
}

// Driver runs store operations and records them.
type Driver struct {
	env    *Env
	rnd    *rand.Rand
	lines  [][]byte
	wants  map[int]want
	cancelled float64
	wantTS map[int]time.Time
	nextID int
	toks   [][]string // per store: tokens handed out so far (resume points)
	maxTok []string   // per store: greatest Append token so far
	napp   []int
	noHuge bool
	dead   bool
	mu     sync.Mutex
	Errors []string
}

func NewDriver(env *Env, rnd *rand.Rand, firstID int) *Driver {
	d := &Driver{env: env, rnd: rnd, wants: map[int]want{}, wantTS: map[int]time.Time{}, nextID: firstID}
	d.toks = make([][]string, len(env.Stores))
	d.maxTok = make([]string, len(env.Stores))
	d.napp = make([]int, len(env.Stores))
	d.emit(map[string]any{"e": "reset"})
	return d
}

func (d *Driver) emit(m map[string]any) {
	b, err := json.Marshal(m)
	if err != nil {
		panic(err)
	}
	d.mu.Lock()
	d.lines = append(d.lines, b)
	d.mu.Unlock()
}

func (d *Driver) Lines() [][]byte {
	d.mu.Lock()
	defer d.mu.Unlock()
	return append([][]byte(nil), d.lines...)
}

// RunRandomGuarded runs RunRandom under a watchdog: a store call that never returns (e.g. a lock leaked by an
// earlier panic inside the store) is recorded as a store error instead of hanging the check.
func (d *Driver) RunRandomGuarded(o Opts, watchdog time.Duration) {
	done := make(chan struct{})
	go func() { defer close(done); d.RunRandom(o) }()
	select {
	case <-done:
	case <-time.After(watchdog):
		d.emit(map[string]any{"e": "error", "op": "any", "s": "s1", "msg": "a store call on " + d.env.Kind + " did not return within " + watchdog.String()})
	}
}
func (d *Driver) NextID() int     { return d.nextID }

func sname(i int) string { return fmt.Sprintf("s%d", i+1) }

var typeNames = []string{"user.created", "pkg.Type", "*pkg.Ptr", "наименование", "a b\tc", "x/y#z?q=1", "T", "order.v2", "emoji-😀", "quote\"d'"}

func (d *Driver) richJSON(depth int) any {
	switch d.rnd.IntN(9) {
	case 0:
		return nil
	case 1:
		return d.rnd.IntN(2) == 0
	case 2:
		return json.Number(fmt.Sprintf("%d", d.rnd.Int64()-d.rnd.Int64()))
	case 3:
		if d.noHuge {
			return json.Number("0.1")
		}
		return json.Number([]string{"1e400", "0.1", "-0", "123456789012345678901234567890", "1.0000000000000000001", "3.14159e-7"}[d.rnd.IntN(6)])
	case 4:
		return []string{"", "plain", "<html>&amp;</html>", "uni codeé", "tab\t\"q\"\\", "日本語", "\x00nul"}[d.rnd.IntN(7)]
	case 5, 6:
		if depth > 2 {
			return "deep"
		}
		n := d.rnd.IntN(4)
		arr := make([]any, n)
		for i := range arr {
			arr[i] = d.richJSON(depth + 1)
		}
		return arr
	default:
		if depth > 2 {
			return json.Number("7")
		}
		m := map[string]any{}
		for i, n := 0, d.rnd.IntN(4); i < n; i++ {
			m[[]string{"a", "key with space", "ключ", "<k>", ""}[d.rnd.IntN(5)]] = d.richJSON(depth + 1)
		}
		return m
	}
}

func (d *Driver) timestamp(o Opts) time.Time {
	base := time.Date(2024, time.Month(1+d.rnd.IntN(12)), 1+d.rnd.IntN(28), d.rnd.IntN(24), d.rnd.IntN(60), d.rnd.IntN(60), d.rnd.IntN(1e9), time.UTC)
	if !o.Zones {
		return base
	}
	switch d.rnd.IntN(8) {
	case 0:
		return base.In(time.FixedZone("CET", 3600))
	case 1:
		return base.In(time.FixedZone("", -5*3600))
	case 2:
		return base.In(time.FixedZone("UTC+5:45", 5*3600+45*60))
	case 3:
		if o.SecondsZone {
			return base.In(time.FixedZone("LMT", 3600+17))
		}
		return base.Truncate(time.Second)
	case 4:
		return base.Truncate(time.Hour)
	case 5:
		return time.Now()
	}
	return base
}

func jsonEqual(a, b []byte) bool {
	da := json.NewDecoder(bytes.NewReader(a))
	da.UseNumber()
	db := json.NewDecoder(bytes.NewReader(b))
	db.UseNumber()
	var va, vb any
	if da.Decode(&va) != nil || db.Decode(&vb) != nil {
		return false
	}
	return reflect.DeepEqual(va, vb)
}

func (d *Driver) projEvents(evs []*eb.StoredEvent, s int) (out []map[string]any, ok bool, why string) {
	ok = true
	out = []map[string]any{}
	for _, e := range evs {
		id := -1
		if e != nil {
			var doc struct {
				ID *int `json:"id"`
			}
			if json.Unmarshal(e.Data, &doc) == nil && doc.ID != nil {
				id = *doc.ID
			}
		}
		if e == nil {
			out = append(out, map[string]any{"id": -1, "tok": "<nil event>"})
			ok = false
			continue
		}
		out = append(out, map[string]any{"id": id, "tok": string(e.Offset)})
		w, known := d.wants[id]
		if !known {
			continue // the sequence check rejects an event nobody appended to this store
		}
		if e.Type != w.typ {
			ok, why = false, fmt.Sprintf("event %d: type %q came back as %q", id, w.typ, e.Type)
		} else if !jsonEqual(e.Data, w.data) {
			ok, why = false, fmt.Sprintf("event %d: data %s came back as %s", id, w.data, e.Data)
		} else if !w.anyTS && !e.Timestamp.Equal(w.ts) {
			ok, why = false, fmt.Sprintf("event %d: timestamp %s came back as %s", id, w.ts.Format(time.RFC3339Nano), e.Timestamp.Format(time.RFC3339Nano))
		}
		d.remember(s, string(e.Offset), true)
	}
	return
}

// metricsOK: the SQLite store's metrics hook was called exactly once for the operation, with the operation's kind,
// its error flag and (for reads) the number of events it returned.  True for stores without a hook.
func (d *Driver) metricsOK(s int, kind string, count int, failed bool) bool {
	if s >= len(d.env.Metrics) || d.env.Metrics[s] == nil {
		return true
	}
	calls := d.env.Metrics[s].Take()
	return len(calls) == 1 && calls[0].Kind == kind && calls[0].Err == failed && (kind != "read" || calls[0].Count == count)
}

func (d *Driver) remember(s int, tok string, isEventTok bool) {
	for _, t := range d.toks[s] {
		if t[1:] == tok {
			return
		}
	}
	if isEventTok {
		tok = "E" + tok
	} else {
		tok = "N" + tok
	}
	d.toks[s] = append(d.toks[s], tok)
}

func (d *Driver) pickFrom(s int, o Opts) string {
	var cands []string
	for _, t := range d.toks[s] {
		if t[0] == 'N' || o.EventToks {
			cands = append(cands, t[1:])
		}
	}
	if len(cands) == 0 || d.rnd.IntN(4) == 0 {
		return ""
	}
	return cands[d.rnd.IntN(len(cands))]
}

func (d *Driver) fail(op string, s int, err error) {
	if strings.Contains(err.Error(), "panic inside the store") {
		d.dead = true // the store may have died holding its lock: nothing more can be asked of it
	}
	msg := fmt.Sprintf("%s on %s %s failed: %v", op, d.env.Kind, sname(s), err)
	d.Errors = append(d.Errors, msg)
	d.emit(map[string]any{"e": "error", "op": op, "s": sname(s), "msg": msg})
}

// opCtx returns the context of the next operation: now and then one that is already cancelled.
func (d *Driver) opCtx() (context.Context, bool) {
	if d.cancelled > 0 && d.rnd.Float64() < d.cancelled {
		ctx, cancel := context.WithCancel(context.Background())
		cancel()
		return ctx, true
	}
	return context.Background(), false
}

// refused records an operation that was called with a cancelled context and returned an error: it must have had no effect.
func (d *Driver) refused(op string, s int, err error) {
	if s < len(d.env.Metrics) && d.env.Metrics[s] != nil {
		d.env.Metrics[s].Take()
	}
	if strings.Contains(err.Error(), "panic inside the store") {
		d.fail(op, s, err)
		return
	}
	d.emit(map[string]any{"e": "refused", "op": op, "s": sname(s)})
}

// Append appends one generated event to store s.
func (d *Driver) Append(s int, o Opts) {
	ctx, canc := d.opCtx()
	id := d.nextID
	d.nextID++
	doc := map[string]any{"id": id, "v": d.richJSON(0)}
	data, _ := json.Marshal(doc)
	ev := &eb.Event{Type: typeNames[d.rnd.IntN(len(typeNames))], Data: data, Timestamp: d.timestamp(o)}
	d.wants[id] = want{typ: ev.Type, data: data, ts: ev.Timestamp}
	var off eb.Offset
	err := guard(func() (e error) { off, e = d.env.Stores[s].Append(ctx, ev); return })
	if err != nil && canc {
		d.refused("append", s, err)
		return
	}
	if err != nil {
		d.fail("append", s, err)
		return
	}
	gt := d.napp[s] == 0 || strings.Compare(string(off), d.maxTok[s]) > 0
	d.maxTok[s] = string(off) // compare with the previous append (a non-increasing step is reported once)
	d.napp[s]++
	d.remember(s, string(off), false)
	d.emit(map[string]any{"e": "append", "s": sname(s), "id": id, "tok": string(off), "gt": gt, "mok": d.metricsOK(s, "append", 0, false)})
}

// guard turns a panic inside a store call into an error (a store that panics on valid input violates the contract;
// it must not take the harness down)
func guard(f func() error) (err error) {
	defer func() {
		if p := recover(); p != nil {
			err = fmt.Errorf("panic inside the store: %v", p)
		}
	}()
	return f()
}

func (d *Driver) Read(s int, from string, limit int) {
	var evs []*eb.StoredEvent
	var next eb.Offset
	ctx, canc := d.opCtx()
	err := guard(func() (e error) {
		evs, next, e = d.env.Stores[s].Read(ctx, eb.Offset(from), limit)
		return
	})
	if err != nil && canc {
		d.refused("read", s, err)
		return
	}
	if err != nil {
		d.fail("read", s, err)
		return
	}
	pe, ok, why := d.projEvents(evs, s)
	scribble(evs)
	d.remember(s, string(next), false)
	m := map[string]any{"e": "read", "s": sname(s), "from": from, "limit": limit, "evs": pe, "next": string(next), "ok": ok, "mok": d.metricsOK(s, "read", len(evs), false)}
	if !ok {
		m["why"] = why
	}
	d.emit(m)
}

func (d *Driver) Stream(s int, from string) {
	st, isStreamer := d.env.Stores[s].(eb.EventStoreStreamer)
	if !isStreamer {
		return
	}
	var evs []*eb.StoredEvent
	ctx, canc := d.opCtx()
	if err := guard(func() error {
		for e, err := range st.ReadStream(ctx, eb.Offset(from)) {
			if err != nil {
				return err
			}
			evs = append(evs, e)
		}
		return nil
	}); err != nil {
		if canc {
			d.refused("stream", s, err)
			return
		}
		d.fail("stream", s, err)
		return
	}
	pe, ok, why := d.projEvents(evs, s)
	m := map[string]any{"e": "stream", "s": sname(s), "from": from, "evs": pe, "ok": ok, "mok": d.metricsOK(s, "read", len(evs), false)}
	if !ok {
		m["why"] = why
	}
	d.emit(m)
}

func (d *Driver) Save(s int, sub, tok string) {
	ss, isSub := d.env.Stores[s].(eb.SubscriptionStore)
	if !isSub {
		return
	}
	ctx, canc := d.opCtx()
	if err := ss.SaveOffset(ctx, sub, eb.Offset(tok)); err != nil {
		if canc {
			d.refused("save", s, err)
			if d.rnd.IntN(2) == 0 {
				d.Save(s, sub, tok) // the caller tries again
			}
			return
		}
		d.fail("save", s, err)
		return
	}
	d.emit(map[string]any{"e": "save", "s": sname(s), "sub": sub, "tok": tok, "mok": d.metricsOK(s, "save", 0, false)})
}

func (d *Driver) Load(s int, sub string) {
	ss, isSub := d.env.Stores[s].(eb.SubscriptionStore)
	if !isSub {
		return
	}
	ctx, canc := d.opCtx()
	tok, err := ss.LoadOffset(ctx, sub)
	if err != nil && canc {
		d.refused("load", s, err)
		return
	}
	if err != nil {
		d.fail("load", s, err)
		return
	}
	d.remember(s, string(tok), false)
	d.emit(map[string]any{"e": "load", "s": sname(s), "sub": sub, "tok": string(tok), "mok": d.metricsOK(s, "load", 0, false)})
}

// scribble does what a caller may do with a page it was handed: append to it and clear it.  A store whose Read
// returns a window of its own backing array gets its log damaged by that.
func scribble(evs []*eb.StoredEvent) {
	if cap(evs) > len(evs) {
		_ = append(evs, &eb.StoredEvent{Offset: "zzz", Type: "intruder", Data: []byte(`{"id":-5}`)})
	}
	for i := range evs {
		evs[i] = nil
	}
}

// ConcurrentAppends lets several goroutines append to store s at the same time.  The appends are
// recorded afterwards in the order in which the store holds them (read back with one full chain of reads),
// each with the offset its Append returned; gt is false if the offsets do not increase along the log or if
// the log order contradicts real time (an Append that had returned before another one was called must
// come first).
func (d *Driver) ConcurrentAppends(s int, workers, per int, o Opts) {
	evs := map[int]*eb.Event{}
	d.ConcurrentVia(s, workers, per, func(id int) (string, error) {
		off, err := d.env.Stores[s].Append(context.Background(), evs[id])
		return string(off), err
	}, func(id int) (string, []byte) {
		doc := map[string]any{"id": id, "v": d.richJSON(1)}
		data, _ := json.Marshal(doc)
		evs[id] = &eb.Event{Type: typeNames[d.rnd.IntN(len(typeNames))], Data: data, Timestamp: d.timestamp(o)}
		d.wantTS[id] = evs[id].Timestamp
		return evs[id].Type, data
	})
}

// ConcurrentVia is ConcurrentAppends with the append made by `do` (directly, or through a bus); mk gives the
// type and data the event with that id will be stored with.
func (d *Driver) ConcurrentVia(s int, workers, per int, do func(id int) (string, error), mk func(id int) (string, []byte)) {
	type rec struct {
		id        int
		tok       string
		call, ret int64
		err       error
	}
	var clock atomic.Int64
	recs := make([]rec, workers*per)
	for i := range recs {
		id := d.nextID
		d.nextID++
		typ, data := mk(id)
		w := want{typ: typ, data: data, anyTS: true}
		if ts, ok := d.wantTS[id]; ok {
			w.ts, w.anyTS = ts, false
		}
		d.wants[id] = w
		recs[i].id = id
	}
	var wg sync.WaitGroup
	for w := 0; w < workers; w++ {
		wg.Add(1)
		go func(w int) {
			defer wg.Done()
			for k := 0; k < per; k++ {
				i := w*per + k
				recs[i].call = clock.Add(1)
				off, err := do(recs[i].id)
				recs[i].ret = clock.Add(1)
				recs[i].tok, recs[i].err = off, err
			}
		}(w)
	}
	wg.Wait()
	byID := map[int]*rec{}
	for i := range recs {
		if recs[i].err != nil {
			d.fail("append", s, recs[i].err)
			return
		}
		byID[recs[i].id] = &recs[i]
	}
	// read the log back (chain of unlimited reads from the greatest token known before this phase)
	from := d.maxTok[s]
	var order []int
	for round := 0; round < 1000; round++ {
		var got []*eb.StoredEvent
		var next eb.Offset
		err := guard(func() (e error) {
			got, next, e = d.env.Stores[s].Read(context.Background(), eb.Offset(from), 0)
			return
		})
		if err != nil {
			d.fail("read", s, err)
			return
		}
		if len(got) == 0 {
			break
		}
		for _, e := range got {
			var doc struct{ ID int `json:"id"` }
			doc.ID = -1
			if e != nil {
				json.Unmarshal(e.Data, &doc)
			}
			order = append(order, doc.ID)
		}
		from = string(next)
	}
	seen := map[int]bool{}
	var maxRetCallBefore int64 // the latest call stamp among the appends placed so far
	for _, id := range order {
		r, ok := byID[id]
		if !ok || seen[id] {
			continue
		}
		seen[id] = true
		gt := d.napp[s] == 0 || strings.Compare(r.tok, d.maxTok[s]) > 0
		if r.ret < maxRetCallBefore {
			gt = false // it had returned before an append placed earlier in the log was even called
		}
		if r.call > maxRetCallBefore {
			maxRetCallBefore = r.call
		}
		d.maxTok[s] = r.tok
		d.napp[s]++
		d.remember(s, r.tok, false)
		d.emit(map[string]any{"e": "append", "s": sname(s), "id": id, "tok": r.tok, "gt": gt, "concurrent": true, "mok": true})
	}
	if s < len(d.env.Metrics) && d.env.Metrics[s] != nil {
		d.env.Metrics[s].Take() // callbacks of the concurrent phase are not attributed to single operations
	}
	for i := range recs { // appends the store acknowledged but does not hold
		if !seen[recs[i].id] {
			d.emit(map[string]any{"e": "error", "op": "append", "s": sname(s), "msg": fmt.Sprintf("acknowledged append %d (offset %s) is not in the log", recs[i].id, recs[i].tok)})
		}
	}
}

// RunRandom performs a random operation sequence.
func (d *Driver) RunRandom(o Opts) {
	d.noHuge = o.NoHugeNumbers
	d.cancelled = o.Cancelled
	defer func() { d.cancelled = 0 }()
	if o.Concurrent > 0 && (o.ConcurrentAlways || d.rnd.IntN(3) == 0) {
		per := 1 + d.rnd.IntN(6)
		if o.ConcurrentAlways {
			per = 6 + d.rnd.IntN(10)
		}
		d.ConcurrentAppends(d.rnd.IntN(len(d.env.Stores)), 2+d.rnd.IntN(o.Concurrent), per, o)
	}
	subs := []string{"sub-a", "sub-b", "под писка"}
	for i := 0; i < o.Ops && !d.dead; i++ {
		s := d.rnd.IntN(len(d.env.Stores))
		switch k := d.rnd.IntN(10); {
		case k < 4:
			if o.MaxAppends == 0 || d.napp[s] < o.MaxAppends {
				d.Append(s, o)
			}
		case k < 7:
			d.Read(s, d.pickFrom(s, o), o.Limits[d.rnd.IntN(len(o.Limits))])
		case k < 8:
			if o.Streams {
				d.Stream(s, d.pickFrom(s, o))
			}
		case k < 9:
			d.Save(s, subs[d.rnd.IntN(len(subs))], d.pickFrom(s, o))
		default:
			d.Load(s, subs[d.rnd.IntN(len(subs))])
		}
	}
	// finish with a full chain over every store: paged chain from the oldest offset
	for s := range d.env.Stores {
		if d.dead {
			break
		}
		from := ""
		for round := 0; round < 400; round++ {
			n0 := len(d.lines)
			lim := o.Limits[d.rnd.IntN(len(o.Limits))]
			var evs []*eb.StoredEvent
			var next eb.Offset
			err := guard(func() (e error) {
				evs, next, e = d.env.Stores[s].Read(context.Background(), eb.Offset(from), lim)
				return
			})
			if err != nil {
				d.fail("read", s, err)
				break
			}
			pe, ok, why := d.projEvents(evs, s)
			m := map[string]any{"e": "read", "s": sname(s), "from": from, "limit": lim, "evs": pe, "next": string(next), "ok": ok, "mok": d.metricsOK(s, "read", len(evs), false)}
			if !ok {
				m["why"] = why
			}
			d.emit(m)
			_ = n0
			if len(evs) == 0 {
				break
			}
			from = string(next)
		}
		if o.Streams {
			d.Stream(s, "")
		}
	}
}
