package busdrv

import (
	"bufio"
	"bytes"
	"encoding/json"
	"fmt"
	"math/rand/v2"
	"os"
	"os/exec"
	"time"

	"verif/harness/gen"
)

// GenOpts steers the random script generator.
type GenOpts struct {
	Procs      int      // driver goroutines
	OpsPerProc [2]int   // min, max
	Types      int      // number of distinct event types (colliding shards preferred)
	Async      float64  // probability that a registration is Async
	Once       float64
	Seq        float64
	Filt       float64
	Panics     float64
	Body       float64  // probability that a registration has a re-entrant body
	Kinds      []string // top-level operation kinds with repetition as weights
	Ctxs       []string // cancellable context names (besides "bg")
	Cfgs       []Cfg
	Yield      bool // add scheduling noise to bodies
	SeqNoBody  bool // sequential registrations never publish from their body (documented deadlock)
	CtxBody    float64 // probability that a body starts by cancelling / sampling one of the contexts
	Sleep      int  // async handler bodies may sleep up to this many microseconds (keeps work in flight)
	ChainPub   bool // registrations of the first type may publish events of the other types from their body
	PFail      float64 // probability that the append of a top-level publish is scripted to fail (bus with a store)
}

var vals = []string{"a", "b", "c"}

// pickTypes prefers groups of types that share a shard inside ebu.
func pickTypes(rnd *rand.Rand, n int) []string {
	var out []string
	groups := gen.Colliding()
	rnd.Shuffle(len(groups), func(i, j int) { groups[i], groups[j] = groups[j], groups[i] })
	for _, g := range groups {
		for _, t := range g {
			if len(out) < n {
				out = append(out, t.Name)
			}
		}
	}
	for len(out) < n {
		out = append(out, gen.All[rnd.IntN(len(gen.All))].Name)
	}
	return out
}

func pick[T any](rnd *rand.Rand, xs []T) T { return xs[rnd.IntN(len(xs))] }

func (g GenOpts) subOp(rnd *rand.Rand, types []string, depth int) Op {
	o := Op{Op: "sub", T: pick(rnd, types), Fn: pick(rnd, gen.Fns)}
	o.Once = rnd.Float64() < g.Once
	o.Async = rnd.Float64() < g.Async
	o.Seq = rnd.Float64() < g.Seq
	o.Panics = rnd.Float64() < g.Panics
	if rnd.Float64() < g.Filt {
		o.Filt = true
		for _, v := range vals {
			if rnd.IntN(2) == 0 {
				o.Accept = append(o.Accept, v)
			}
		}
	}
	if depth == 0 && rnd.Float64() < g.Body {
		n := 1 + rnd.IntN(2)
		for i := 0; i < n; i++ {
			if g.ChainPub {
				if o.T == types[0] && len(types) > 1 && !(o.Seq && !o.Async) {
					o.Body = append(o.Body, Op{Op: "pub", T: types[1+rnd.IntN(len(types)-1)], Val: pick(rnd, vals), Ctx: "bg"})
				}
				continue
			}
			o.Body = append(o.Body, g.bodyOp(rnd, types, o))
		}
	}
	if depth == 0 && len(g.Ctxs) > 0 && rnd.Float64() < g.CtxBody {
		k := "cancel"
		if rnd.IntN(3) == 0 {
			k = "ctxerr"
		}
		o.Body = append(o.Body, Op{Op: k, Ctx: pick(rnd, g.Ctxs)})
	}
	if g.Sleep > 0 && o.Async && rnd.IntN(2) == 0 {
		o.Body = append(o.Body, Op{Op: "sleep", Yield: 50 + rnd.IntN(g.Sleep)})
	}
	if g.Yield && rnd.IntN(3) == 0 {
		o.Body = append([]Op{{Op: "yield", Yield: 1 + rnd.IntN(3)}}, o.Body...)
	}
	return o
}

func (g GenOpts) bodyOp(rnd *rand.Rand, types []string, owner Op) Op {
	for {
		switch rnd.IntN(8) {
		case 0:
			return Op{Op: "unsub", T: pick(rnd, types), Fn: pick(rnd, gen.Fns)}
		case 1:
			return Op{Op: "unsub", T: owner.T, Fn: owner.Fn} // a handler that unsubscribes itself
		case 2:
			return Op{Op: "clear", T: pick(rnd, types)}
		case 3:
			return Op{Op: "clearall"}
		case 4:
			return Op{Op: "count", T: pick(rnd, types)}
		case 5:
			return Op{Op: "has", T: pick(rnd, types)}
		case 6:
			o := g.subOp(rnd, types, 1)
			if rnd.IntN(2) == 0 {
				o.T = owner.T // a handler that subscribes another handler for its own event type
			}
			return o
		case 7:
			// a nested publish is only finite if the publishing registration fires once
			if owner.Once && !(owner.Seq && g.SeqNoBody) && !owner.Seq {
				return Op{Op: "pub", T: pick(rnd, types), Val: pick(rnd, vals), Ctx: "bg"}
			}
		}
	}
}

// below returns the greatest value that is smaller than every accepted value.
func below(accept []string) (string, bool) {
	best, ok := "", false
	for _, v := range vals {
		lower := true
		for _, a := range accept {
			if v >= a {
				lower = false
			}
		}
		if lower && (!ok || v > best) {
			best, ok = v, true
		}
	}
	return best, ok
}

// Cascade generates a single-goroutine script aimed at one situation: a publish of type T is being delivered
// to a list of three to six handlers when one of them publishes T again, and that inner publish changes the
// registry (it fires and retires Once handlers, its handlers unsubscribe or subscribe) before the outer
// delivery continues with the rest of its snapshot.  The publishing handler is a Once handler or one whose
// filter only accepts values above the one it publishes, so every cascade is finite.
func (g GenOpts) Cascade(rnd *rand.Rand) Script {
	types := pickTypes(rnd, 2)
	t := types[0]
	s := Script{Cfg: pick(rnd, g.Cfgs)}
	n := 3 + rnd.IntN(4)
	var ops []Op
	for i := 0; i < n; i++ {
		o := Op{Op: "sub", T: t, Fn: pick(rnd, gen.Fns)}
		o.Once = rnd.Float64() < 0.4
		o.Async = rnd.Float64() < g.Async
		if rnd.Float64() < 0.3 {
			o.Filt = true
			o.Accept = [][]string{{"c"}, {"b", "c"}, {"b"}, {"a", "b", "c"}}[rnd.IntN(4)]
		}
		if i < n-1 && rnd.IntN(3) == 0 { // a publisher (never the last handler: something must follow it)
			switch {
			case o.Once:
				o.Body = []Op{{Op: "pub", T: t, Val: pick(rnd, vals), Ctx: "bg"}}
			default:
				if !o.Filt || len(o.Accept) == 3 {
					o.Filt, o.Accept = true, [][]string{{"c"}, {"b", "c"}}[rnd.IntN(2)]
				}
				if v, ok := below(o.Accept); ok {
					o.Body = []Op{{Op: "pub", T: t, Val: v, Ctx: "bg"}}
				}
			}
		} else if rnd.IntN(6) == 0 {
			o.Body = []Op{g.bodyOp(rnd, types, o)}
		}
		ops = append(ops, o)
	}
	for i, m := 0, 1+rnd.IntN(3); i < m; i++ {
		ops = append(ops, Op{Op: "pub", T: t, Val: []string{"c", "c", "b", "a"}[rnd.IntN(4)], Ctx: "bg"})
		ops = append(ops, Op{Op: "count", T: t})
	}
	ops = append(ops, Op{Op: "wait"})
	s.Procs = append(s.Procs, ops)
	return s
}

// Random generates one script.
func (g GenOpts) Random(rnd *rand.Rand) Script {
	types := pickTypes(rnd, g.Types)
	s := Script{Cfg: pick(rnd, g.Cfgs)}
	for p := 0; p < g.Procs; p++ {
		n := g.OpsPerProc[0] + rnd.IntN(g.OpsPerProc[1]-g.OpsPerProc[0]+1)
		var ops []Op
		for i := 0; i < n; i++ {
			switch k := pick(rnd, g.Kinds); k {
			case "sub":
				ops = append(ops, g.subOp(rnd, types, 0))
			case "unsub":
				ops = append(ops, Op{Op: "unsub", T: pick(rnd, types), Fn: pick(rnd, gen.Fns)})
			case "clear", "count", "has":
				ops = append(ops, Op{Op: k, T: pick(rnd, types)})
			case "clearall", "wait":
				ops = append(ops, Op{Op: k})
			case "pub":
				ctx := "bg"
				if len(g.Ctxs) > 0 && rnd.IntN(3) == 0 {
					ctx = pick(rnd, g.Ctxs)
				}
				o := Op{Op: "pub", T: pick(rnd, types), Val: pick(rnd, vals), Ctx: ctx, Dyn: rnd.IntN(5) == 0}
				if s.Cfg.Store && rnd.Float64() < g.PFail {
					o.PFail = pick(rnd, []string{"rej", "rej", "hang"})
				}
				ops = append(ops, o)
			case "cancel", "ctxerr", "shutdown":
				if len(g.Ctxs) > 0 {
					ops = append(ops, Op{Op: k, Ctx: pick(rnd, g.Ctxs)})
				}
			default:
				panic("kind " + k)
			}
		}
		s.Procs = append(s.Procs, ops)
	}
	return s
}

// Batch is the unit of work of the child process.
type Batch struct {
	Scripts    []Script `json:"scripts"`
	Seed       uint64   `json:"seed"`
	WatchdogMS int      `json:"watchdog_ms"`
	MaxProcs   int      `json:"maxprocs,omitempty"`
	NoRecord   bool     `json:"norecord,omitempty"`
}

// BatchResult is what the child reports on stdout (one JSON line per script).
type ScriptResult struct {
	Index    int    `json:"index"`
	Lines    int    `json:"lines"` // number of trace lines the script produced
	Hang     bool   `json:"hang"`
	Escaped  string `json:"escaped,omitempty"`
	Stack    string `json:"stack,omitempty"`
}

// RunBatchChild is the body of `verif busdrive`: it executes the scripts one after the other, writes
// the concatenated trace to out and one result line per script to stdout.
func RunBatchChild(batchFile, out string) error {
	b, err := os.ReadFile(batchFile)
	if err != nil {
		return err
	}
	var batch Batch
	if err := json.Unmarshal(b, &batch); err != nil {
		return err
	}
	f, err := os.Create(out)
	if err != nil {
		return err
	}
	w := bufio.NewWriter(f)
	enc := json.NewEncoder(os.Stdout)
	for i, s := range batch.Scripts {
		rec := &Recorder{Off: batch.NoRecord}
		fin, esc := RunScript(s, rec, batch.Seed+uint64(i), time.Duration(batch.WatchdogMS)*time.Millisecond)
		lines := rec.Lines()
		for _, l := range lines {
			w.Write(l)
			w.WriteByte('\n')
		}
		res := ScriptResult{Index: i, Lines: len(lines), Hang: !fin}
		if esc != nil {
			res.Escaped = fmt.Sprint(esc)
		}
		if !fin {
			res.Stack = allStacks()
		}
		enc.Encode(res)
		if !fin {
			break // goroutines of the hung script are still alive; the parent restarts after it
		}
	}
	w.Flush()
	return f.Close()
}

// RunBatch runs a batch in a child process (self) and returns per-script results; the trace is in out.
// A child that dies (a panic that escaped a goroutine ebu started, a fatal error) is reported by crashed.
func RunBatch(self string, dir string, name string, batch Batch, env []string) (results []ScriptResult, out string, crashed string, err error) {
	bf := dir + "/" + name + ".batch.json"
	out = dir + "/" + name + ".ndjson"
	b, _ := json.Marshal(batch)
	if err = os.WriteFile(bf, b, 0o644); err != nil {
		return
	}
	cmd := exec.Command(self, "busdrive", bf, out)
	cmd.Env = append(os.Environ(), env...)
	var so, se bytes.Buffer
	cmd.Stdout = &so
	cmd.Stderr = &se
	runErr := cmd.Run()
	sc := bufio.NewScanner(&so)
	sc.Buffer(make([]byte, 1<<24), 1<<24)
	for sc.Scan() {
		var r ScriptResult
		if json.Unmarshal(sc.Bytes(), &r) == nil {
			results = append(results, r)
		}
	}
	if runErr != nil {
		crashed = fmt.Sprintf("%v\n%s", runErr, tailStr(se.String(), 6000))
	}
	return
}

func tailStr(s string, n int) string {
	if len(s) > n {
		return s[len(s)-n:]
	}
	return s
}

// Nested generates a script in which goroutine 2 performs whole operations while a handler invoked by goroutine 1's
// publish is parked inside its body (a deterministic interleaving: operations of one goroutine nested in a
// callback of another).  The type has several registrations (Once ones among them) so that removals shift the list.
func (g GenOpts) Nested(rnd *rand.Rand) Script {
	types := pickTypes(rnd, 2)
	t := types[0]
	s := Script{Cfg: pick(rnd, g.Cfgs)}
	n := 3 + rnd.IntN(4)
	parkAt := rnd.IntN(n)
	for i := 0; i < n; i++ {
		o := Op{Op: "sub", T: t, Fn: gen.Fns[rnd.IntN(len(gen.Fns))], Once: rnd.Float64() < g.Once, Async: false}
		if rnd.Float64() < g.Filt {
			o.Filt, o.Accept = true, []string{"a", "b"}
		}
		if i == parkAt {
			o.Body = []Op{{Op: "park", Ctx: "g1"}}
		}
		s.Setup = append(s.Setup, o)
	}
	s.Procs = [][]Op{{{Op: "pub", T: t, Val: "a", Ctx: "bg"}}, {{Op: "whenparked", Ctx: "g1"}}}
	for i := 0; i < 1+rnd.IntN(3); i++ {
		var o Op
		switch rnd.IntN(7) {
		case 0, 1:
			o = Op{Op: "unsub", T: t, Fn: gen.Fns[rnd.IntN(len(gen.Fns))]}
		case 2:
			o = Op{Op: "sub", T: t, Fn: gen.Fns[rnd.IntN(len(gen.Fns))], Once: rnd.IntN(2) == 0}
		case 3, 4:
			o = Op{Op: "pub", T: t, Val: pick(rnd, vals), Ctx: "bg"}
		case 5:
			o = Op{Op: "clear", T: pick(rnd, types)}
		default:
			o = Op{Op: "count", T: t}
		}
		s.Procs[1] = append(s.Procs[1], o)
	}
	s.Procs[1] = append(s.Procs[1], Op{Op: "unpark", Ctx: "g1"})
	s.Final = []Op{{Op: "pub", T: t, Val: "a", Ctx: "bg"}, {Op: "count", T: t}, {Op: "unpark", Ctx: "g1"}}
	return s
}
