package busdrv

import (
	"bytes"
	"encoding/json"
	"fmt"
	"os"
	"path/filepath"
	"runtime"
	"strings"
	"time"

	"verif/harness/core"
)

func allStacks() string {
	buf := make([]byte, 1<<20)
	n := runtime.Stack(buf, true)
	return string(buf[:n])
}

// Outcome of executing and validating a set of scripts.
type Outcome struct {
	Executed int
	Accepted int
	Rejected []Rejection
	Hangs    []int // script indices
	Crashes  []string
}

// Rejection describes one script whose recorded trace is not a behaviour of the specification.
type Rejection struct {
	Script   int
	Line     int             // 1-based index, within the script's trace, of the first line that cannot be explained
	Event    json.RawMessage // that line
	Prev     []string        // the lines before it (tail)
	TraceLen int
}

// Classifier maps a rejection to (clause, scenario class); per property.
type Classifier func(s Script, rej Rejection) (clause, scenario string)

// ExecOpts configures ExecAndValidate.
type ExecOpts struct {
	Name       string
	Self       string // path of this binary
	Seed       uint64
	Watchdog   time.Duration
	Env        []string // e.g. GOMAXPROCS=1
	HangIsViolation bool
	HangClause      string
	CrashClause     string
	Classify   Classifier
	TraceSpec  string // default BusTrace
}

func splitSegments(lines [][]byte) [][][]byte {
	var segs [][][]byte
	for _, l := range lines {
		if bytes.HasPrefix(l, []byte(`{"cfg":`)) || bytes.Contains(l[:min(len(l), 60)], []byte(`"e":"new"`)) {
			segs = append(segs, nil)
		}
		if len(segs) == 0 {
			segs = append(segs, nil)
		}
		segs[len(segs)-1] = append(segs[len(segs)-1], l)
	}
	return segs
}

// ExecAndValidate runs the scripts against the real bus in child processes, validates the recorded
// traces with TLC and reports every disagreement as a violation of run.Prop.
func ExecAndValidate(run *core.Run, scripts []Script, o ExecOpts) *Outcome {
	out := &Outcome{}
	if o.TraceSpec == "" {
		o.TraceSpec = "BusTrace"
	}
	if o.Watchdog == 0 {
		o.Watchdog = 10 * time.Second
	}
	// 1. execute (restart the child after a hang or crash)
	type seg struct {
		script int
		lines  [][]byte
	}
	var segs []seg
	next := 0
	round := 0
	for next < len(scripts) {
		if len(out.Hangs) >= 4 || len(out.Crashes) >= 4 {
			run.Logf("%s: %d hangs, %d crashes: not executing the remaining %d scripts", o.Name, len(out.Hangs), len(out.Crashes), len(scripts)-next)
			break
		}
		round++
		batch := Batch{Scripts: scripts[next:], Seed: o.Seed + uint64(next), WatchdogMS: int(o.Watchdog / time.Millisecond)}
		results, traceFile, crashed, err := RunBatch(o.Self, run.Work, fmt.Sprintf("%s-r%d", o.Name, round), batch, o.Env)
		if err != nil {
			run.Infra("driver batch %s: %v", o.Name, err)
			return out
		}
		data, _ := os.ReadFile(traceFile)
		os.Remove(traceFile)
		var lines [][]byte
		for _, l := range bytes.Split(data, []byte("\n")) {
			if len(l) > 0 {
				lines = append(lines, l)
			}
		}
		pos := 0
		progressed := 0
		for _, r := range results {
			idx := next + r.Index
			if r.Hang {
				out.Hangs = append(out.Hangs, idx)
				art, _ := json.MarshalIndent(map[string]any{"script": scripts[idx], "goroutines": r.Stack}, "", " ")
				p := run.SaveReplay(fmt.Sprintf("%s-hang-%d.json", o.Name, idx), art)
				if o.HangIsViolation {
					run.Violate(core.Violation{Clause: o.HangClause, Scenario: ScenarioOf(scripts[idx]),
						Detail: "a call that the specification says returns was still blocked inside ebu after " + o.Watchdog.String(), Replay: p})
				} else {
					run.Infra("script %d of %s hung (%s)", idx, o.Name, p)
				}
				progressed = r.Index + 1
				break
			}
			if pos+r.Lines <= len(lines) {
				segs = append(segs, seg{idx, lines[pos : pos+r.Lines]})
			}
			pos += r.Lines
			if r.Escaped != "" {
				art, _ := json.MarshalIndent(map[string]any{"script": scripts[idx], "escaped": r.Escaped}, "", " ")
				p := run.SaveReplay(fmt.Sprintf("%s-escaped-%d.json", o.Name, idx), art)
				run.Violate(core.Violation{Clause: o.CrashClause, Scenario: ScenarioOf(scripts[idx]), Detail: r.Escaped, Replay: p})
			}
			progressed = r.Index + 1
			out.Executed++
		}
		if crashed != "" && progressed < len(batch.Scripts) {
			// the child died while running script next+progressed
			idx := next + progressed
			out.Crashes = append(out.Crashes, crashed)
			art, _ := json.MarshalIndent(map[string]any{"script": scripts[idx], "child": crashed}, "", " ")
			p := run.SaveReplay(fmt.Sprintf("%s-crash-%d.json", o.Name, idx), art)
			if strings.Contains(crashed, "panic: boom-") || strings.Contains(crashed, "DATA RACE") || strings.Contains(crashed, "fatal error") {
				run.Violate(core.Violation{Clause: o.CrashClause, Scenario: ScenarioOf(scripts[idx]),
					Detail: "the process running the script died:\n" + tailStr(crashed, 3000), Replay: p})
			} else {
				run.Infra("driver child died on script %d of %s: %s", idx, o.Name, tailStr(crashed, 2000))
			}
			progressed++
		}
		if progressed == 0 {
			run.Infra("driver child made no progress (%s): %s", o.Name, tailStr(crashed, 2000))
			return out
		}
		next += progressed
	}
	// 2. validate; on a rejection report the script, drop it and validate the rest.  Work is done in chunks; a chunk
	// whose validation does not finish in time is split, a single script that cannot be decided in time is
	// counted as undecided (never as a verdict).
	var queue [][]seg
	for i := 0; i < len(segs); i += 120 {
		queue = append(queue, segs[i:min(i+120, len(segs))])
	}
	undecided := 0
	defer func() {
		if undecided > 0 {
			run.Note("undecided_scripts_"+o.Name, undecided)
		}
	}()
	for len(queue) > 0 && len(out.Rejected) < 8 {
		segs := queue[0]
		queue = queue[1:]
		if len(segs) == 0 {
			continue
		}
		var buf bytes.Buffer
		total := 0
		for _, s := range segs {
			for _, l := range s.lines {
				buf.Write(l)
				buf.WriteByte('\n')
				total++
			}
		}
		tf := filepath.Join(run.Work, fmt.Sprintf("%s-validate.ndjson", o.Name))
		os.WriteFile(tf, buf.Bytes(), 0o644)
		v, err := run.ValidateTrace(o.TraceSpec, tf, total, 40*time.Second+time.Duration(len(segs))*1500*time.Millisecond)
		if err != nil && v != nil && v.Res != nil && v.Res.Status == "timeout" {
			if len(segs) == 1 {
				undecided++
				run.Logf("validation of script %d of %s did not finish in time: undecided", segs[0].script, o.Name)
				continue
			}
			queue = append([][]seg{segs[:len(segs)/2], segs[len(segs)/2:]}, queue...)
			continue
		}
		if err != nil {
			run.Infra("%v", err)
			return out
		}
		run.AddTLC(v.Res)
		run.Logf("validated %s: %d scripts, %d lines, accepted=%v highwater=%d, %d states, %.1fs", o.Name, len(segs), total, v.Accepted, v.HighWater, v.Res.Distinct, v.Res.Wall.Seconds())
		if v.Accepted {
			out.Accepted += len(segs)
			run.AddTraces(len(segs))
			continue
		}
		// locate the script holding line HighWater+1
		bad := v.HighWater + 1
		cum := 0
		k := -1
		for i, s := range segs {
			if bad <= cum+len(s.lines) {
				k = i
				break
			}
			cum += len(s.lines)
		}
		if k < 0 {
			run.Infra("trace rejected but high-water mark %d is outside the trace (%d lines): %s", v.HighWater, total, tailStr(v.Res.Out, 1500))
			return out
		}
		s := segs[k]
		rej := Rejection{Script: s.script, Line: bad - cum, TraceLen: len(s.lines)}
		if rej.Line >= 1 && rej.Line <= len(s.lines) {
			rej.Event = json.RawMessage(s.lines[rej.Line-1])
		}
		for i := max(0, rej.Line-13); i < rej.Line-1 && i < len(s.lines); i++ {
			rej.Prev = append(rej.Prev, string(s.lines[i]))
		}
		out.Rejected = append(out.Rejected, rej)
		out.Accepted += k
		run.AddTraces(k)
		var tr bytes.Buffer
		for _, l := range s.lines {
			tr.Write(l)
			tr.WriteByte('\n')
		}
		art, _ := json.MarshalIndent(map[string]any{"script": scripts[s.script], "first_unexplained_line": rej.Line,
			"event": rej.Event, "before": rej.Prev, "trace": tr.String(), "spec": o.TraceSpec}, "", " ")
		p := run.SaveReplay(fmt.Sprintf("%s-rejected-%d.json", o.Name, s.script), art)
		clause, scen := "trace-rejected", ScenarioOf(scripts[s.script])
		if o.Classify != nil {
			clause, scen = o.Classify(scripts[s.script], rej)
		}
		run.Violate(core.Violation{Clause: clause, Scenario: scen, Replay: p,
			Detail: fmt.Sprintf("the execution recorded from the real code is not a behaviour of %s.tla: line %d of %d cannot be explained: %s\n(preceding lines: %s)",
				o.TraceSpec, rej.Line, len(s.lines), string(rej.Event), strings.Join(rej.Prev, " "))})
		queue = append([][]seg{segs[k+1:]}, queue...)
	}
	return out
}

// scenarioOf gives a coarse, stable description of a script (option kinds used).
func ScenarioOf(s Script) string {
	flags := map[string]bool{}
	var walk func(ops []Op)
	walk = func(ops []Op) {
		for _, o := range ops {
			if o.Op == "sub" {
				if o.Once {
					flags["once"] = true
				}
				if o.Async {
					flags["async"] = true
				}
				if o.Seq {
					flags["seq"] = true
				}
				if o.Filt {
					flags["filter"] = true
				}
				if o.Panics {
					flags["panic"] = true
				}
				if len(o.Body) > 0 {
					flags["reentrant"] = true
				}
				walk(o.Body)
			}
		}
	}
	for _, p := range s.Procs {
		walk(p)
		for _, o := range p {
			if o.Op == "pub" && o.PFail != "" {
				flags["append-"+o.PFail] = true
			}
			if o.Op == "pub" && o.Dyn {
				flags["dyn-publish"] = true
			}
		}
	}
	if s.Cfg.Store {
		flags["store"] = true
	}
	if s.Cfg.PTimeout {
		flags["ptimeout"] = true
	}
	var ks []string
	for _, k := range []string{"once", "async", "seq", "filter", "panic", "reentrant", "store", "ptimeout", "append-rej", "append-hang", "dyn-publish"} {
		if flags[k] {
			ks = append(ks, k)
		}
	}
	return fmt.Sprintf("procs=%d %s", len(s.Procs), strings.Join(ks, "+"))
}
