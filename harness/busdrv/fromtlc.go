package busdrv

import (
	"encoding/json"
	"fmt"
	"strconv"
	"time"

	"verif/harness/core"
)

type rawOp map[string]any

func str(m rawOp, k string) string { s, _ := m[k].(string); return s }
func boolean(m rawOp, k string) bool {
	b, _ := m[k].(bool)
	return b
}

// opFromTLC converts an operation record printed by TLC (MCBus.tla) into a script operation.
// Model type names are mapped to real generated types; registration / publish ids are dropped
// (the driver assigns them at run time).
func opFromTLC(m rawOp, typeMap map[string]string) Op {
	src := m
	if pr, ok := m["pr"].(map[string]any); ok { // body template of a nested Subscribe
		src = rawOp{}
		for k, v := range pr {
			src[k] = v
		}
		src["op"], src["t"], src["fn"] = m["op"], m["t"], m["fn"]
	}
	o := Op{Op: str(src, "op"), Fn: str(src, "fn"), Val: str(src, "val"), Ctx: str(src, "ctx")}
	if t := str(src, "t"); t != "" {
		if rt, ok := typeMap[t]; ok {
			o.T = rt
		} else {
			o.T = t
		}
	}
	o.Once, o.Async, o.Seq, o.Filt, o.Panics = boolean(src, "once"), boolean(src, "async"), boolean(src, "seq"), boolean(src, "filt"), boolean(src, "panics")
	if acc, ok := src["accept"].([]any); ok {
		for _, a := range acc {
			if s, ok := a.(string); ok {
				o.Accept = append(o.Accept, s)
			}
		}
	}
	if body, ok := src["body"].([]any); ok {
		for _, b := range body {
			if bm, ok := b.(map[string]any); ok {
				o.Body = append(o.Body, opFromTLC(bm, typeMap))
			}
		}
	}
	return o
}

// ScriptFromHist turns one history line printed by MCBus's Emit into a script.
func ScriptFromHist(line string, cfg Cfg, typeMap map[string]string) (Script, error) {
	var inner string
	if err := json.Unmarshal([]byte(line), &inner); err != nil {
		return Script{}, fmt.Errorf("hist line is not a JSON string: %w", err)
	}
	var rec struct {
		Cfg  *Cfg `json:"cfg"`
		Hist []struct {
			G int   `json:"g"`
			O rawOp `json:"o"`
		} `json:"hist"`
	}
	if err := json.Unmarshal([]byte(inner), &rec); err != nil {
		return Script{}, err
	}
	s := Script{Cfg: cfg}
	if rec.Cfg != nil {
		s.Cfg = *rec.Cfg
	}
	for _, h := range rec.Hist {
		for len(s.Procs) < h.G {
			s.Procs = append(s.Procs, nil)
		}
		s.Procs[h.G-1] = append(s.Procs[h.G-1], opFromTLC(h.O, typeMap))
	}
	return s, nil
}

// Generate asks TLC (simulation mode) for num behaviours of an MCBus configuration and converts the
// printed histories into scripts.
func Generate(run *core.Run, module, config string, num, depth int, cfg Cfg, typeMap map[string]string) []Script {
	res, err := run.TLC(core.TLCOpts{Module: module, Config: config, Workers: 1, Timeout: 10 * time.Minute, HeapMB: 4000,
		Args: []string{"-simulate", "num=" + strconv.Itoa(num), "-depth", strconv.Itoa(depth), "-seed", strconv.FormatInt(run.Seed, 10)}})
	if err != nil {
		run.Infra("tlc generation %s: %v", config, err)
		return nil
	}
	var out []Script
	seen := map[string]bool{}
	for _, l := range res.Printed {
		if len(l) < 3 || l[0] != '"' || l[1] != '{' {
			continue
		}
		s, err := ScriptFromHist(l, cfg, typeMap)
		if err != nil {
			run.Infra("cannot parse TLC history: %v", err)
			return out
		}
		b, _ := json.Marshal(s)
		if !seen[string(b)] {
			seen[string(b)] = true
			out = append(out, s)
		}
	}
	run.Logf("TLC generated %d behaviours (%d distinct) from %s (%s), %d states", len(res.Printed), len(out), config, res.Status, res.Generated)
	if len(out) == 0 {
		run.Infra("TLC generated no behaviour from %s: %s", config, tailStr(res.Out, 1500))
	}
	return out
}
