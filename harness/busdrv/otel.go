package busdrv

import (
	"context"
	"encoding/json"
	"fmt"
	"os"

	eb "github.com/jilio/ebu"
	ebotel "github.com/jilio/ebu/otel"
	"go.opentelemetry.io/otel/codes"
	sdkmetric "go.opentelemetry.io/otel/sdk/metric"
	"go.opentelemetry.io/otel/sdk/metric/metricdata"
	sdktrace "go.opentelemetry.io/otel/sdk/trace"
	"go.opentelemetry.io/otel/sdk/trace/tracetest"
)

func init() {
	if os.Getenv("VERIF_OTEL") == "1" {
		NewOtel = newOtel
	}
}

func counter(rm metricdata.ResourceMetrics, name string) int64 {
	var n int64
	for _, sm := range rm.ScopeMetrics {
		for _, m := range sm.Metrics {
			if m.Name == name {
				if s, ok := m.Data.(metricdata.Sum[int64]); ok {
					for _, dp := range s.DataPoints {
						n += dp.Value
					}
				}
			}
		}
	}
	return n
}

// newOtel builds the real OpenTelemetry observability on the SDK's span recorder and a manual metric reader.
// The returned function compares what the SDK saw with the callbacks recorded in the trace of the same run
// (which BusTrace.tla validates): every started span ended exactly once, handler and persist spans are children
// of a publish span, error status exactly for panics, and the counters equal the recorded numbers.
func newOtel() (eb.Observability, func(lines [][]byte, cfg Cfg) map[string]any) {
	sr := tracetest.NewSpanRecorder()
	tp := sdktrace.NewTracerProvider(sdktrace.WithSpanProcessor(sr))
	reader := sdkmetric.NewManualReader()
	mp := sdkmetric.NewMeterProvider(sdkmetric.WithReader(reader))
	o, err := ebotel.New(ebotel.WithTracerProvider(tp), ebotel.WithMeterProvider(mp))
	if err != nil {
		panic(err)
	}
	return o, func(lines [][]byte, cfg Cfg) map[string]any {
		closer := cfg.Closer
		var pubs, hruns, herrs, appends, appendErrs int64
		for _, l := range lines {
			var ev struct {
				E   string `json:"e"`
				Err bool   `json:"err"`
				Res *bool  `json:"res"`
			}
			json.Unmarshal(l, &ev)
			switch ev.E {
			case "new":
				pubs, hruns, herrs, appends, appendErrs = 0, 0, 0, 0, 0
			case "append":
				appends++
				if ev.Res != nil && !*ev.Res {
					appendErrs++
				}
			case "pstart":
				pubs++
			case "hstart":
				hruns++
			case "hdone":
				if ev.Err {
					herrs++
				}
			}
		}
		var rm metricdata.ResourceMetrics
		reader.Collect(context.Background(), &rm)
		why := ""
		check := func(name string, got, want int64) {
			if got != want && why == "" {
				why = fmt.Sprintf("%s = %d, the recorded callbacks say %d", name, got, want)
			}
		}
		check("eventbus.publish.count", counter(rm, "eventbus.publish.count"), pubs)
		check("eventbus.handler.count", counter(rm, "eventbus.handler.count"), hruns)
		check("eventbus.handler.errors", counter(rm, "eventbus.handler.errors"), herrs)
		wantPersist := int64(0)
		if closer {
			wantPersist = pubs
		}
		if cfg.Store { // the recording store: the recorded append attempts and their outcomes
			wantPersist = appends
		}
		check("eventbus.persist.count", counter(rm, "eventbus.persist.count"), wantPersist)
		check("eventbus.persist.errors", counter(rm, "eventbus.persist.errors"), appendErrs)
		started, ended := sr.Started(), sr.Ended()
		if len(started) != len(ended) && why == "" {
			why = fmt.Sprintf("%d spans started, %d ended", len(started), len(ended))
		}
		seen := map[string]int{}
		pubSpans := map[string]bool{}
		var errSpans int64
		for _, s := range ended {
			seen[s.SpanContext().SpanID().String()]++
			if len(s.Name()) > 17 && s.Name()[:17] == "eventbus.publish:" {
				pubSpans[s.SpanContext().SpanID().String()] = true
			}
		}
		for _, s := range ended {
			id := s.SpanContext().SpanID().String()
			if seen[id] != 1 && why == "" {
				why = "span " + s.Name() + " ended " + fmt.Sprint(seen[id]) + " times"
			}
			isPub := pubSpans[id]
			if !isPub && !pubSpans[s.Parent().SpanID().String()] && why == "" {
				why = "span " + s.Name() + " is not a child of a publish span"
			}
			if !isPub && s.Status().Code == codes.Error {
				errSpans++
			}
		}
		check("spans with error status", errSpans, herrs+appendErrs)
		check("spans", int64(len(ended)), pubs+hruns+wantPersist)
		return map[string]any{"e": "otel", "ok": why == "", "why": why}
	}
}
