// Package busdrv drives the real ebu bus with operation scripts (from TLC behaviours or random
// generators) and records one NDJSON event per observable step: API call, API return and every
// invocation of user code (handler, filter, hook, panic handler, observability callback, store
// Close).  The recorded trace is validated against spec/BusTrace.tla.
package busdrv

import (
	"context"
	"encoding/json"
	"errors"
	"fmt"
	"math/rand/v2"
	"reflect"
	"runtime"
	"sync"
	"sync/atomic"
	"time"

	eb "github.com/jilio/ebu"

	"verif/harness/gen"
)

// Op is one scripted operation.  Registration and publish ids are assigned at run time.
type Op struct {
	Op     string   `json:"op"`
	T      string   `json:"t,omitempty"`
	Fn     string   `json:"fn,omitempty"`
	Once   bool     `json:"once,omitempty"`
	Async  bool     `json:"async,omitempty"`
	Seq    bool     `json:"seq,omitempty"`
	Filt   bool     `json:"filt,omitempty"`
	Accept []string `json:"accept,omitempty"`
	Panics bool     `json:"panics,omitempty"`
	Body   []Op     `json:"body,omitempty"`
	Val    string   `json:"val,omitempty"`
	Ctx    string   `json:"ctx,omitempty"`
	Yield  int      `json:"yield,omitempty"` // scheduling noise inside a handler body (stress mode)
	Dyn    bool     `json:"dyn,omitempty"`   // pub: the event is published through an interface value (Publish[any])
	PFail  string   `json:"pfail,omitempty"` // pub on a bus with a store: "rej" the store rejects the append, "hang" it blocks until its context is done
}

// Cfg is the bus configuration of a script.
type Cfg struct {
	Obs       bool `json:"obs"`
	Before    bool `json:"before"`
	BeforeCtx bool `json:"beforeCtx"`
	After     bool `json:"after"`
	AfterCtx  bool `json:"afterCtx"`
	PanicH    bool `json:"panicH"`
	Closer    bool `json:"closer"`
	Store     bool `json:"store,omitempty"`    // WithStore(recording store): appends are trace events
	PTimeout  bool `json:"ptimeout,omitempty"` // WithPersistenceTimeout(persistTimeout)
	PErrH     bool `json:"perrH,omitempty"`    // WithPersistenceErrorHandler
	CloseFails bool `json:"closeFails,omitempty"` // the store's Close fails every other time
}

const persistTimeout = 15 * time.Millisecond

// Script is one scenario: a fresh bus and one operation list per driver goroutine.
type Script struct {
	Cfg   Cfg    `json:"cfg"`
	Procs [][]Op `json:"procs"`
	// Setup runs on goroutine 1 before the driver goroutines start, Final on goroutine 1 after they have finished.
	Setup []Op `json:"setup,omitempty"`
	Final []Op `json:"final,omitempty"`
	// NoFinalWait suppresses the quiescing Wait that the driver appends.
	NoFinalWait bool `json:"noFinalWait,omitempty"`
}

// Recorder collects trace events in one total order.
type Recorder struct {
	mu    sync.Mutex
	lines [][]byte
	Off   bool // stress runs under the race detector record nothing (no extra synchronisation)
}

func (r *Recorder) Emit(ev map[string]any) {
	if r.Off {
		return
	}
	r.mu.Lock()
	b, err := json.Marshal(ev)
	if err != nil {
		panic(err)
	}
	r.lines = append(r.lines, b)
	r.mu.Unlock()
}

func (r *Recorder) Lines() [][]byte {
	r.mu.Lock()
	defer r.mu.Unlock()
	return append([][]byte(nil), r.lines...)
}

type regInfo struct {
	id     int
	op     Op
	typ    *gen.TypeOps
	accept map[string]bool
}

type ctxPair struct {
	ctx    context.Context
	cancel context.CancelFunc
}

type ctxKey string

const (
	keyPub    ctxKey = "verif-pub"
	keyObsPub ctxKey = "verif-obs-pub"
	keyTok    ctxKey = "verif-tok"
	keySpan   ctxKey = "verif-span"
)

// span is what a tracer would keep in the context: the innermost started-and-not-completed callback pair.
type span struct {
	kind string // "pub", "persist", "h"
	id   int
}

func spanOf(ctx context.Context) span {
	if ctx == nil {
		return span{}
	}
	s, _ := ctx.Value(keySpan).(span)
	return s
}

// Drv executes scripts against one real bus.
type Drv struct {
	Bus  *eb.EventBus
	Rec  *Recorder
	cfg  Cfg
	regs sync.Map // id -> *regInfo
	pubG sync.Map // pub -> goroutine id
	mu   sync.Mutex
	ctxs map[string]ctxPair
	gates map[string]*gate
	nReg atomic.Int64
	nPub atomic.Int64
	nTok atomic.Int64
	nClose atomic.Int64
	rnd  *rand.Rand
	pfail sync.Map // pub -> scripted outcome of its append
	pubT  sync.Map // pub -> the name its event type is persisted under
	ptok  sync.Map // pub -> token of its OnPersistStart
	otelDone func(lines [][]byte, cfg Cfg) map[string]any // compares the SDK's spans and counters with the recorded trace
}

// NewOtel, when set, gives every bus with observability a real OpenTelemetry implementation in front of the
// recording one, and a function that checks what the SDK recorded against the recorded trace.
var NewOtel func() (eb.Observability, func(lines [][]byte, cfg Cfg) map[string]any)

type closerStore struct{ d *Drv }

func (s *closerStore) Append(ctx context.Context, e *eb.Event) (eb.Offset, error) {
	return eb.Offset(fmt.Sprintf("%020d", time.Now().UnixNano())), nil
}
func (s *closerStore) Read(ctx context.Context, from eb.Offset, limit int) ([]*eb.StoredEvent, eb.Offset, error) {
	return nil, from, nil
}
func (s *closerStore) Close() error { return s.d.closeStore() }

// closeStore records the Close call; with cfg.CloseFails every second Close reports an error.
func (d *Drv) closeStore() error {
	n := d.nClose.Add(1)
	if d.cfg.CloseFails && n%2 == 1 {
		d.Rec.Emit(map[string]any{"e": "close", "ok": false})
		return errors.New("store: close failed")
	}
	d.Rec.Emit(map[string]any{"e": "close", "ok": true})
	return nil
}

// recStore is the store of a bus with cfg.Store: every append is a trace event, emitted inside Append (that is, under
// ebu's storeMu: the order of the lines is the order of the log).
type recStore struct {
	d   *Drv
	n   atomic.Int64
}

func (s *recStore) Append(ctx context.Context, e *eb.Event) (eb.Offset, error) {
	p := ctxPub(ctx, keyPub)
	var dec struct {
		Pub int
		Val string
	}
	want, _ := s.d.pubT.Load(p)
	ok := json.Unmarshal(e.Data, &dec) == nil && dec.Pub == p && e.Type == want && !e.Timestamp.IsZero()
	mode, _ := s.d.pfail.Load(p)
	if mode == "hang" && !s.d.cfg.PTimeout {
		mode = "rej"
	}
	switch mode {
	case "rej":
		s.d.Rec.Emit(map[string]any{"e": "append", "p": p, "res": false, "ok": ok})
		return "", errors.New("store: append rejected")
	case "hang": // a store that honours its context and is stuck: only the persistence timeout ends the call
		select {
		case <-ctx.Done():
			s.d.Rec.Emit(map[string]any{"e": "append", "p": p, "res": false, "ok": ok})
			return "", ctx.Err()
		case <-time.After(200 * persistTimeout):
			s.d.Rec.Emit(map[string]any{"e": "append", "p": p, "res": false, "ok": false, "why": "the context of a stuck append was not done 200 persistence timeouts later"})
			return "", errors.New("store: stuck")
		}
	}
	n := s.n.Add(1)
	s.d.Rec.Emit(map[string]any{"e": "append", "p": p, "res": true, "ok": ok})
	return eb.Offset(fmt.Sprintf("%020d", n)), nil
}
func (s *recStore) Read(ctx context.Context, from eb.Offset, limit int) ([]*eb.StoredEvent, eb.Offset, error) {
	return nil, from, nil
}

type closerRecStore struct {
	recStore
}

func (s *closerRecStore) Close() error { return s.d.closeStore() }

type obs struct {
	d    *Drv
	otel eb.Observability // optional second implementation (the real OpenTelemetry one), called first
}

func pubOf(event any) int {
	if p, ok := event.(gen.PubIDer); ok {
		return p.PubID()
	}
	return -1
}

func (o obs) OnPublishStart(ctx context.Context, name string, event any) context.Context {
	if o.otel != nil {
		ctx = o.otel.OnPublishStart(ctx, name, event)
	}
	p := pubOf(event)
	o.d.Rec.Emit(map[string]any{"e": "pstart", "p": p, "ok": name == eb.EventType(event) && ctxPub(ctx, keyPub) == p})
	return context.WithValue(context.WithValue(ctx, keyObsPub, p), keySpan, span{"pub", p})
}
func (o obs) OnPublishComplete(ctx context.Context, name string) {
	if o.otel != nil {
		o.otel.OnPublishComplete(ctx, name)
	}
	p := ctxPub(ctx, keyObsPub)
	o.d.Rec.Emit(map[string]any{"e": "pdone", "p": p, "ok": spanOf(ctx) == span{"pub", p}}) // complete gets the context its start returned
}
func (o obs) OnHandlerStart(ctx context.Context, name string, async bool) context.Context {
	if o.otel != nil {
		ctx = o.otel.OnHandlerStart(ctx, name, async)
	}
	tok := int(o.d.nTok.Add(1))
	p := ctxPub(ctx, keyObsPub)
	o.d.Rec.Emit(map[string]any{"e": "hstart", "p": p, "async": async, "tok": tok, "pok": spanOf(ctx) == span{"pub", p}})
	return context.WithValue(context.WithValue(ctx, keyTok, tok), keySpan, span{"h", tok})
}
func (o obs) OnHandlerComplete(ctx context.Context, d time.Duration, err error) {
	if o.otel != nil {
		o.otel.OnHandlerComplete(ctx, d, err)
	}
	o.d.Rec.Emit(map[string]any{"e": "hdone", "p": ctxPub(ctx, keyObsPub), "tok": ctxPub(ctx, keyTok), "err": err != nil})
}
func (o obs) OnPersistStart(ctx context.Context, name string, pos int64) context.Context {
	if o.otel != nil {
		ctx = o.otel.OnPersistStart(ctx, name, pos)
	}
	if !o.d.cfg.Store {
		return ctx
	}
	p := ctxPub(ctx, keyObsPub)
	tok := int(o.d.nTok.Add(1))
	o.d.ptok.Store(p, tok)
	o.d.Rec.Emit(map[string]any{"e": "perss", "p": p, "ok": spanOf(ctx) == span{"pub", p}})
	return context.WithValue(ctx, keySpan, span{"persist", tok})
}
func (o obs) OnPersistComplete(ctx context.Context, d time.Duration, err error) {
	if o.otel != nil {
		o.otel.OnPersistComplete(ctx, d, err)
	}
	if !o.d.cfg.Store {
		return
	}
	p := ctxPub(ctx, keyObsPub)
	tok, _ := o.d.ptok.Load(p)
	o.d.Rec.Emit(map[string]any{"e": "persd", "p": p, "err": err != nil, "ok": spanOf(ctx) == span{"persist", tokInt(tok)}})
}

func tokInt(v any) int {
	if i, ok := v.(int); ok {
		return i
	}
	return -1
}

func ctxPub(ctx context.Context, k ctxKey) int {
	if v, ok := ctx.Value(k).(int); ok {
		return v
	}
	return -1
}

// gate lets a script nest whole operations of one goroutine inside a handler callback of another one,
// deterministically: the handler parks, the other goroutine works, then releases it.  All waits are bounded, so
// a gate that is never reached (the handler was not invoked) cannot hang the script.
type gate struct {
	parked  chan struct{}
	release chan struct{}
	once1   sync.Once
	once2   sync.Once
}

func (g *gate) park() {
	first := false
	g.once1.Do(func() { first = true; close(g.parked) })
	if !first {
		return // only the first invocation parks (a second one may come from the goroutine that is to release the gate)
	}
	select {
	case <-g.release:
	case <-time.After(2 * time.Second):
	}
}
func (g *gate) awaitParked() {
	select {
	case <-g.parked:
	case <-time.After(300 * time.Millisecond):
	}
}
func (g *gate) unpark() { g.once2.Do(func() { close(g.release) }) }

func (d *Drv) gate(name string) *gate {
	d.mu.Lock()
	defer d.mu.Unlock()
	if d.gates == nil {
		d.gates = map[string]*gate{}
	}
	g, ok := d.gates[name]
	if !ok {
		g = &gate{parked: make(chan struct{}), release: make(chan struct{})}
		d.gates[name] = g
	}
	return g
}

// NewDrv builds a bus with the given configuration.
func NewDrv(cfg Cfg, rec *Recorder, seed uint64) *Drv {
	d := &Drv{Rec: rec, cfg: cfg, ctxs: map[string]ctxPair{}, rnd: rand.New(rand.NewPCG(seed, 7))}
	var opts []eb.Option
	if cfg.Obs {
		o := obs{d: d}
		if NewOtel != nil {
			o.otel, d.otelDone = NewOtel()
		}
		opts = append(opts, eb.WithObservability(o))
	}
	hook := func(kind, ev string, wantCtx bool) func(ctx context.Context, t reflect.Type, event any) {
		return func(ctx context.Context, t reflect.Type, event any) {
			p := pubOf(event)
			ok := t == reflect.TypeOf(event)
			if wantCtx {
				ok = ok && ctxPub(ctx, keyPub) == p
			}
			d.Rec.Emit(map[string]any{"e": ev, "h": kind, "p": p, "ok": ok})
		}
	}
	if cfg.Before {
		h := hook("before", "hookb", false)
		opts = append(opts, eb.WithBeforePublish(func(t reflect.Type, e any) { h(nil, t, e) }))
	}
	if cfg.BeforeCtx {
		opts = append(opts, eb.WithBeforePublishContext(hook("beforeCtx", "hookb", true)))
	}
	if cfg.After {
		h := hook("after", "hooka", false)
		opts = append(opts, eb.WithAfterPublish(func(t reflect.Type, e any) { h(nil, t, e) }))
	}
	if cfg.AfterCtx {
		opts = append(opts, eb.WithAfterPublishContext(hook("afterCtx", "hooka", true)))
	}
	if cfg.PanicH {
		opts = append(opts, eb.WithPanicHandler(func(event any, ht reflect.Type, v any) {
			p := pubOf(event)
			r := -1
			ok := false
			if s, isStr := v.(string); isStr {
				var pp int
				if n, _ := fmt.Sscanf(s, "boom-%d-%d", &r, &pp); n == 2 && pp == p {
					if ri, found := d.regs.Load(r); found {
						info := ri.(*regInfo)
						ok = ht == info.typ.HandlerType(info.op.Fn)
					}
				}
			}
			d.Rec.Emit(map[string]any{"e": "panich", "r": r, "p": p, "ok": ok})
		}))
	}
	switch {
	case cfg.Store && cfg.Closer:
		opts = append(opts, eb.WithStore(&closerRecStore{recStore{d: d}}))
	case cfg.Store:
		opts = append(opts, eb.WithStore(&recStore{d: d}))
	case cfg.Closer:
		opts = append(opts, eb.WithStore(&closerStore{d}))
	}
	if cfg.PTimeout {
		opts = append(opts, eb.WithPersistenceTimeout(persistTimeout))
	}
	if cfg.PErrH {
		opts = append(opts, eb.WithPersistenceErrorHandler(func(event any, t reflect.Type, err error) {
			d.Rec.Emit(map[string]any{"e": "perrh", "p": pubOf(event), "ok": t == reflect.TypeOf(event) && err != nil})
		}))
	}
	d.Bus = eb.New(opts...)
	rec.Emit(map[string]any{"e": "new", "cfg": cfg})
	return d
}

func (d *Drv) context(name string) ctxPair {
	d.mu.Lock()
	defer d.mu.Unlock()
	if c, ok := d.ctxs[name]; ok {
		return c
	}
	ctx, cancel := context.WithCancel(context.Background())
	c := ctxPair{ctx, cancel}
	if n := name[len(name)-1]; n >= '0' && n <= '9' && (n-'0')%2 == 0 {
		// contexts with an even number end the way a deadline does: Err() is context.DeadlineExceeded, and they
		// have a (distant) deadline of their own; "cancel" makes the deadline strike
		dc := &deadlineCtx{done: make(chan struct{}), at: time.Now().Add(time.Hour)}
		c = ctxPair{dc, dc.expire}
	}
	d.ctxs[name] = c
	return c
}

// deadlineCtx is a context.Context that ends with context.DeadlineExceeded when expire is called.
type deadlineCtx struct {
	mu   sync.Mutex
	done chan struct{}
	err  error
	at   time.Time
}

func (c *deadlineCtx) Deadline() (time.Time, bool) { return c.at, true }
func (c *deadlineCtx) Done() <-chan struct{}       { return c.done }
func (c *deadlineCtx) Value(any) any               { return nil }
func (c *deadlineCtx) Err() error {
	c.mu.Lock()
	defer c.mu.Unlock()
	return c.err
}
func (c *deadlineCtx) expire() {
	c.mu.Lock()
	defer c.mu.Unlock()
	if c.err == nil {
		c.err = context.DeadlineExceeded
		close(c.done)
	}
}

// OnHandler is called by every generated handler literal.
func (d *Drv) OnHandler(regID, pub int, val string, ctx context.Context) {
	ri, ok := d.regs.Load(regID)
	if !ok {
		panic(fmt.Sprintf("handler of unknown registration %d invoked", regID))
	}
	info := ri.(*regInfo)
	g := pub*1000 + regID
	if !info.op.Async {
		if gv, ok := d.pubG.Load(pub); ok {
			g = gv.(int)
		}
	}
	ev := map[string]any{"e": "enter", "r": regID, "p": pub, "ca": ctx != nil, "ctxp": pub, "tok": 0}
	if ctx != nil {
		ev["ctxp"] = ctxPub(ctx, keyPub)
		if t := ctxPub(ctx, keyTok); t >= 0 {
			ev["tok"] = t
		}
	}
	d.Rec.Emit(ev)
	d.runBody(g, info.op.Body)
	d.Rec.Emit(map[string]any{"e": "exit", "r": regID, "p": pub, "panicked": info.op.Panics})
	if info.op.Panics {
		panic(fmt.Sprintf("boom-%d-%d", regID, pub))
	}
}

func (d *Drv) runBody(g int, body []Op) {
	for _, o := range body {
		d.Exec(g, o)
	}
}

// Exec performs one operation on behalf of goroutine g and records its call and return.
func (d *Drv) Exec(g int, o Op) {
	switch o.Op {
	case "yield":
		for i := 0; i < o.Yield; i++ {
			runtime.Gosched()
		}
		return
	case "sleep":
		time.Sleep(time.Duration(o.Yield) * time.Microsecond)
		return
	case "park": // a handler body parks itself until another goroutine has done its operations (or 2 s have passed)
		d.gate(o.Ctx).park()
		return
	case "whenparked": // wait (at most 300 ms) until the handler body with that gate is parked
		d.gate(o.Ctx).awaitParked()
		return
	case "unpark":
		d.gate(o.Ctx).unpark()
		return
	case "pub":
		p := int(d.nPub.Add(1))
		ctxName := o.Ctx
		if ctxName == "" {
			ctxName = "bg"
		}
		var ctx context.Context
		if ctxName == "bg" {
			ctx = context.Background()
		} else {
			ctx = d.context(ctxName).ctx
		}
		ctx = context.WithValue(ctx, keyPub, p)
		d.pubG.Store(p, g)
		if o.PFail != "" {
			d.pfail.Store(p, o.PFail)
		}
		if d.cfg.Store {
			d.pubT.Store(p, eb.EventType(reflect.New(gen.ByName(o.T).RT).Elem().Interface()))
		}
		d.Rec.Emit(map[string]any{"e": "pcall", "g": g, "p": p, "t": o.T, "val": o.Val, "ctx": ctxName, "dyn": o.Dyn})
		if o.Dyn {
			gen.ByName(o.T).PubAny(d.Bus, ctx, p, o.Val)
		} else {
			gen.ByName(o.T).Pub(d.Bus, ctx, p, o.Val)
		}
		d.Rec.Emit(map[string]any{"e": "pret", "g": g, "p": p})
		return
	}
	rec := map[string]any{"op": o.Op}
	var run func() any
	switch o.Op {
	case "sub":
		id := int(d.nReg.Add(1))
		typ := gen.ByName(o.T)
		info := &regInfo{id: id, op: o, typ: typ, accept: map[string]bool{}}
		for _, a := range o.Accept {
			info.accept[a] = true
		}
		d.regs.Store(id, info)
		rec = map[string]any{"op": "sub", "id": id, "t": o.T, "fn": o.Fn, "once": o.Once, "async": o.Async, "seq": o.Seq, "filt": o.Filt}
		run = func() any {
			var opts []eb.SubscribeOption
			if o.Once {
				opts = append(opts, eb.Once())
			}
			if o.Async {
				opts = append(opts, eb.Async())
			}
			if o.Seq {
				opts = append(opts, eb.Sequential())
			}
			if o.Filt {
				opts = append(opts, typ.Filter(func(pub int, val string) bool {
					res := info.accept[val]
					d.Rec.Emit(map[string]any{"e": "filter", "r": id, "p": pub, "res": res})
					return res
				}))
			}
			if err := typ.Sub(d.Bus, d, o.Fn, id, opts...); err != nil {
				return "error:" + err.Error()
			}
			return "ok"
		}
	case "unsub":
		rec["t"], rec["fn"] = o.T, o.Fn
		run = func() any {
			if err := gen.ByName(o.T).Unsub(d.Bus, o.Fn); err != nil {
				return "notfound"
			}
			return "ok"
		}
	case "clear":
		rec["t"] = o.T
		run = func() any { gen.ByName(o.T).Clear(d.Bus); return "ok" }
	case "clearall":
		run = func() any { eb.ClearAll(d.Bus); return "ok" }
	case "count":
		rec["t"] = o.T
		run = func() any { return gen.ByName(o.T).Count(d.Bus) }
	case "has":
		rec["t"] = o.T
		run = func() any { return gen.ByName(o.T).Has(d.Bus) }
	case "cancel":
		rec["ctx"] = o.Ctx
		run = func() any { d.context(o.Ctx).cancel(); return "ok" }
	case "ctxerr":
		rec["ctx"] = o.Ctx
		run = func() any { return d.context(o.Ctx).ctx.Err() != nil }
	case "wait":
		run = func() any { d.Bus.Wait(); return "ok" }
	case "shutdown":
		rec["ctx"] = o.Ctx
		run = func() any {
			if err := d.Bus.Shutdown(d.context(o.Ctx).ctx); err != nil {
				return "err"
			}
			return "nil"
		}
	default:
		panic("unknown op " + o.Op)
	}
	d.Rec.Emit(map[string]any{"e": "call", "g": g, "o": rec})
	res := run()
	d.Rec.Emit(map[string]any{"e": "ret", "g": g, "res": res})
}

// RunScript executes a script on a fresh bus; every driver goroutine runs its list, then the
// driver waits for asynchronous work (recorded as a Wait by goroutine 1) so the trace is complete.
// It returns false if the script did not finish within the watchdog.
func RunScript(s Script, rec *Recorder, seed uint64, watchdog time.Duration) (finished bool, escaped any) {
	d := NewDrv(s.Cfg, rec, seed)
	done := make(chan any, 1)
	go func() {
		var esc atomic.Value
		var wg sync.WaitGroup
		for _, o := range s.Setup {
			d.Exec(1, o)
		}
		start := make(chan struct{})
		for i, ops := range s.Procs {
			wg.Add(1)
			go func(g int, ops []Op) {
				defer wg.Done()
				defer func() {
					if r := recover(); r != nil {
						esc.Store(fmt.Sprintf("panic escaped to the caller of goroutine %d: %v", g, r))
					}
				}()
				<-start
				for _, o := range ops {
					d.Exec(g, o)
				}
			}(i+1, ops)
		}
		close(start)
		wg.Wait()
		for _, o := range s.Final {
			d.Exec(1, o)
		}
		if !s.NoFinalWait {
			d.Exec(1, Op{Op: "wait"})
		}
		if d.otelDone != nil {
			rec.Emit(d.otelDone(rec.Lines(), s.Cfg))
		}
		done <- esc.Load()
	}()
	select {
	case e := <-done:
		return true, e
	case <-time.After(watchdog):
		return false, nil
	}
}
