// Package gen provides generated event types E00..E39 and, per type, distinct handler
// function literals.  ebu's Unsubscribe identifies a handler by its code pointer, so every
// (type, function) pair that the specifications treat as a distinct "fn" needs its own
// function literal; closures created from one literal share the code pointer (they are the
// same fn) but carry their own registration id.
package gen

import (
	"context"
	"fmt"
	"hash/fnv"
	"reflect"

	eb "github.com/jilio/ebu"
)

const (
	NPlain = 3 // fns "f0".."f2": plain handlers
	NCtx   = 2 // fns "c0","c1": context-aware handlers
)

// Sink receives every handler invocation.
type Sink interface {
	OnHandler(regID, pub int, val string, ctx context.Context)
}

// PubIDer is implemented by all generated event types.
type PubIDer interface{ PubID() int }

// TypeOps is the type-erased API surface of one generated event type.
type TypeOps struct {
	Name        string
	RT          reflect.Type
	Shard       int // the shard ebu routes this type to (FNV-1a of the type's String() & 31)
	Sub         func(b *eb.EventBus, s Sink, fn string, regID int, opts ...eb.SubscribeOption) error
	Unsub       func(b *eb.EventBus, fn string) error
	Pub         func(b *eb.EventBus, ctx context.Context, pub int, val string)
	PubNoCtx    func(b *eb.EventBus, pub int, val string)
	PubAny      func(b *eb.EventBus, ctx context.Context, pub int, val string)
	Clear       func(b *eb.EventBus)
	Count       func(b *eb.EventBus) int
	Has         func(b *eb.EventBus) bool
	Filter      func(f func(pub int, val string) bool) eb.SubscribeOption
	HandlerType func(fn string) reflect.Type
}

func fnIndex(fn string) (ctx bool, i int) {
	if len(fn) != 2 {
		panic("bad fn " + fn)
	}
	i = int(fn[1] - '0')
	switch fn[0] {
	case 'f':
		if i >= NPlain {
			panic("bad fn " + fn)
		}
		return false, i
	case 'c':
		if i >= NCtx {
			panic("bad fn " + fn)
		}
		return true, i
	}
	panic("bad fn " + fn)
}

// Fns lists the function identities available for every type.
var Fns = []string{"f0", "f1", "f2", "c0", "c1"}

func mkOps[T any](name string, mk func(int, string) T,
	plain [NPlain]func(Sink, int) eb.Handler[T], ctxh [NCtx]func(Sink, int) eb.ContextHandler[T]) *TypeOps {
	rt := reflect.TypeOf((*T)(nil)).Elem()
	h := fnv.New32a()
	h.Write([]byte(rt.String()))
	ops := &TypeOps{Name: name, RT: rt, Shard: int(h.Sum32() & 31)}
	ops.Sub = func(b *eb.EventBus, s Sink, fn string, regID int, opts ...eb.SubscribeOption) error {
		c, i := fnIndex(fn)
		if c {
			return eb.SubscribeContext(b, ctxh[i](s, regID), opts...)
		}
		return eb.Subscribe(b, plain[i](s, regID), opts...)
	}
	ops.Unsub = func(b *eb.EventBus, fn string) error {
		c, i := fnIndex(fn)
		if c {
			return eb.Unsubscribe[T](b, ctxh[i](nil, -1))
		}
		return eb.Unsubscribe[T](b, plain[i](nil, -1))
	}
	ops.Pub = func(b *eb.EventBus, ctx context.Context, pub int, val string) { eb.PublishContext(b, ctx, mk(pub, val)) }
	ops.PubNoCtx = func(b *eb.EventBus, pub int, val string) { eb.Publish(b, mk(pub, val)) }
	// the event travels in an interface value: the publish's static type parameter is `any`, its dynamic type is T
	ops.PubAny = func(b *eb.EventBus, ctx context.Context, pub int, val string) {
		var e any = mk(pub, val)
		eb.PublishContext(b, ctx, e)
	}
	ops.Clear = func(b *eb.EventBus) { eb.Clear[T](b) }
	ops.Count = func(b *eb.EventBus) int { return eb.HandlerCount[T](b) }
	ops.Has = func(b *eb.EventBus) bool { return eb.HasHandlers[T](b) }
	ops.Filter = func(f func(int, string) bool) eb.SubscribeOption {
		return eb.WithFilter(func(e T) bool {
			p := any(e).(PubIDer)
			return f(p.PubID(), reflect.ValueOf(e).Field(1).String())
		})
	}
	ops.HandlerType = func(fn string) reflect.Type {
		c, i := fnIndex(fn)
		if c {
			return reflect.TypeOf(ctxh[i](nil, -1))
		}
		return reflect.TypeOf(plain[i](nil, -1))
	}
	return ops
}

// ByName returns the ops of a generated type.
func ByName(name string) *TypeOps {
	for _, o := range All {
		if o.Name == name {
			return o
		}
	}
	panic(fmt.Sprintf("gen: unknown type %q", name))
}

// Colliding returns groups of generated types that ebu routes to the same shard (size >= 2).
func Colliding() [][]*TypeOps {
	by := map[int][]*TypeOps{}
	for _, o := range All {
		by[o.Shard] = append(by[o.Shard], o)
	}
	var out [][]*TypeOps
	for s := 0; s < 32; s++ {
		if len(by[s]) >= 2 {
			out = append(out, by[s])
		}
	}
	return out
}
