package checks

import (
	"math/rand/v2"
	"time"

	"verif/harness/busdrv"
	"verif/harness/core"
	"verif/harness/gen"
)

// storeCfgs: every bus configuration with a recording store (observability, hooks, persistence error handler,
// persistence timeout and panic handler in all combinations).
func storeCfgs() []busdrv.Cfg {
	var out []busdrv.Cfg
	for m := 0; m < 128; m++ {
		out = append(out, busdrv.Cfg{Store: true, Obs: m&1 != 0, BeforeCtx: m&2 != 0, PErrH: m&4 != 0, PTimeout: m&8 != 0,
			AfterCtx: m&16 != 0, PanicH: m&32 != 0, Before: m&64 != 0})
	}
	return out
}

// pipeline: the persistence step as part of the publish pipeline of Bus.tla (persist.go inside PublishContext): one
// append attempt per publish - cancelled or not - after the before hooks and before the snapshot of the handler list,
// OnPersistStart / OnPersistComplete around it, a failed or timed-out append reported once and followed by normal
// delivery, handler and publish-complete contexts that are those of the publish and not of the persistence step.
// withTLC: also run the exhaustive model and its design mutants.
func pipeline(r *core.Run, name string, withTLC bool, nSeq, nStress int, salt uint64, pred func(busdrv.Cfg) bool, env []string) {
	if withTLC {
		r.MustHold(core.TLCOpts{Module: "MCBus_pers", Config: pickCfg(r, "MCBus_pers.cfg", "MCBus_pers_thorough.cfg"), Timeout: 40 * time.Minute})
		r.MustFail(core.TLCOpts{Module: "MCBus_pers", Config: "MCBus_pers_mut_livectxonly.cfg"}, "RecordedFirst")
		r.MustFail(core.TLCOpts{Module: "MCBus_pers", Config: "MCBus_pers_mut_retry.cfg"}, "AppendOnce")
	}
	exec := busdrv.ExecOpts{Self: Self(), Seed: uint64(r.Seed), HangIsViolation: true, HangClause: "calls-return",
		CrashClause: "no-panic-escapes", Classify: classifyOtel, Env: env}
	if withTLC {
		tm := map[string]string{"T1": gen.All[int(r.Seed+3)%len(gen.All)].Name}
		gs := busdrv.Generate(r, "MCBus_pers", "MCBus_pers_gen.cfg", r.Pick(200, 2000), 800, busdrv.Cfg{Store: true}, tm)
		for _, s := range gs {
			r.Case(scriptKey(s))
		}
		if len(gs) > 0 {
			r.Sample(gs[0])
			exec.Name = name + "-pipe-tlc"
			busdrv.ExecAndValidate(r, gs, exec)
		}
	}
	g := busdrv.GenOpts{Procs: 1, OpsPerProc: [2]int{6, 20}, Types: 2, Async: 0.3, Once: 0.2, Filt: 0.1, Panics: 0.15, Body: 0.1, CtxBody: 0.3, PFail: 0.35,
		Kinds: []string{"sub", "sub", "sub", "unsub", "count", "pub", "pub", "pub", "pub", "pub", "cancel", "ctxerr", "wait"},
		Ctxs:  []string{"c1", "c2"}}
	for _, c := range storeCfgs() {
		if pred == nil || pred(c) {
			g.Cfgs = append(g.Cfgs, c)
		}
	}
	rnd := rand.New(rand.NewPCG(uint64(r.Seed), salt))
	var scripts []busdrv.Script
	for i := 0; i < nSeq; i++ {
		s := g.Random(rnd)
		scripts = append(scripts, s)
		r.Case(scriptKey(s))
	}
	if len(scripts) > 0 {
		r.Sample(scripts[0])
		exec.Name = name + "-pipe-seq"
		busdrv.ExecAndValidate(r, scripts, exec)
	}
	if nStress > 0 {
		g.Procs, g.OpsPerProc, g.Yield = 3, [2]int{3, 8}, true
		stressWith(r, name+"-pipe-stress", g, nStress, []int{2, 16}, salt+1, classifyOtel, "calls-return", Self())
	}
}

func classifyOtel(s busdrv.Script, rej busdrv.Rejection) (string, string) {
	c, sc := classifyBus(s, rej)
	if c == "unexplained-otel" {
		return "opentelemetry-spans-and-counters", sc
	}
	return c, sc
}
