package checks

import (
	"fmt"
	"math/rand/v2"
	"os"
	"path/filepath"
	"time"

	"verif/harness/busdrv"
	"verif/harness/core"
	"verif/harness/gen"
)

func init() { registry["C02"] = c02 }

// RaceSelf is the harness binary built with the race detector (falls back to the plain one).
func RaceSelf() string {
	p := filepath.Join(filepath.Dir(Self()), "verif-race")
	if _, err := os.Stat(p); err == nil {
		return p
	}
	return Self()
}

// stress runs free-running multi-goroutine scripts under several GOMAXPROCS values and validates the traces.
func stress(r *core.Run, name string, g busdrv.GenOpts, perProcs int, maxprocs []int, seedSalt uint64, classify busdrv.Classifier, hangClause string) {
	stressWith(r, name, g, perProcs, maxprocs, seedSalt, classify, hangClause, RaceSelf())
}

func stressWith(r *core.Run, name string, g busdrv.GenOpts, perProcs int, maxprocs []int, seedSalt uint64, classify busdrv.Classifier, hangClause string, self string) {
	for _, mp := range maxprocs {
		rnd := rand.New(rand.NewPCG(uint64(r.Seed), seedSalt+uint64(mp)))
		var scripts []busdrv.Script
		for i := 0; i < perProcs; i++ {
			gg := g
			gg.Procs = 2 + rnd.IntN(g.Procs-1)
			s := gg.Random(rnd)
			scripts = append(scripts, s)
			r.Case(scriptKey(s))
		}
		r.Sample(scripts[0])
		busdrv.ExecAndValidate(r, scripts, busdrv.ExecOpts{Name: fmt.Sprintf("%s-mp%d", name, mp), Self: self, Seed: uint64(r.Seed)*1000 + uint64(mp),
			Env: []string{fmt.Sprintf("GOMAXPROCS=%d", mp), "GORACE=halt_on_error=1"}, HangIsViolation: true, HangClause: hangClause,
			CrashClause: "data-race-or-crash", Classify: classify})
	}
}

// C02: Subscribe, unsubscribe and publish stay consistent under every interleaving.
func c02(r *core.Run) {
	r.Rule = "exhaustive TLC run of MCBus_c02 (2-3 concurrent drivers, registry operations at call/linearize/return granularity, real-time must/must-not rules as invariants) plus design mutants; free-running multi-goroutine scripts on the real bus (race detector on, GOMAXPROCS 1/2/4/16), every recorded history validated against BusTrace.tla with TLC searching for the linearization points; a case is distinct by its script"
	r.MustHold(core.TLCOpts{Module: "MCBus_c02", Config: pickCfg(r, "MCBus_c02.cfg", "MCBus_c02_thorough.cfg"), Timeout: 40 * time.Minute})
	r.MustFail(core.TLCOpts{Module: "MCBus_c02", Config: "MCBus_c02_mut_livelist.cfg"}, "")
	r.MustFail(core.TLCOpts{Module: "MCBus_c02", Config: "MCBus_c02_mut_noclaim.cfg"}, "OnceAtMostOnce")

	g := busdrv.GenOpts{Procs: 4, OpsPerProc: [2]int{3, 8}, Types: 3, Async: 0.1, Once: 0.3, Filt: 0.2, Body: 0.15, Yield: true,
		Kinds: []string{"sub", "sub", "sub", "unsub", "unsub", "clear", "clearall", "count", "pub", "pub", "pub", "pub"},
		Cfgs:  []busdrv.Cfg{plainCfg}}
	stress(r, "c02-stress", g, r.Pick(150, 3000), []int{1, 2, 4, 16}, 202, classifyBus, "no-deadlock")
	// operations of one goroutine nested inside a handler callback of another (deterministic interleavings)
	rnd := rand.New(rand.NewPCG(uint64(r.Seed), 204))
	var nested []busdrv.Script
	for i := 0; i < r.Pick(600, 10000); i++ {
		s := g.Nested(rnd)
		nested = append(nested, s)
		r.Case(scriptKey(s))
	}
	r.Sample(nested[0])
	busdrv.ExecAndValidate(r, nested, busdrv.ExecOpts{Name: "c02-nested", Self: RaceSelf(), Seed: uint64(r.Seed), Env: []string{"GORACE=halt_on_error=1"},
		HangIsViolation: true, HangClause: "no-deadlock", CrashClause: "data-race-or-crash", Classify: classifyBus})
	churn(r, r.Pick(1500, 40000))
}

// churn: many tiny scripts that hit one type's handler list with simultaneous Unsubscribe / Subscribe calls (the
// narrow windows inside the registry's critical sections), then publish once to observe who is registered.
func churn(r *core.Run, n int) {
	rnd := rand.New(rand.NewPCG(uint64(r.Seed), 203))
	fns := []string{"f0", "f1", "f2", "c0", "c1"}
	for _, mp := range []int{4, 16} {
		var scripts []busdrv.Script
		for i := 0; i < n/2; i++ {
			t := gen.All[rnd.IntN(len(gen.All))].Name
			s := busdrv.Script{Cfg: plainCfg}
			k := 3 + rnd.IntN(3)
			perm := rnd.Perm(len(fns))
			if r.Thorough() && i%4 == 0 {
				// a long list in front: the scan inside Unsubscribe takes longer, which widens its windows
				for j := 0; j < 60; j++ {
					s.Setup = append(s.Setup, busdrv.Op{Op: "sub", T: t, Fn: fns[perm[k%len(fns)]], Once: j%7 == 3})
				}
			}
			for j := 0; j < k; j++ {
				s.Setup = append(s.Setup, busdrv.Op{Op: "sub", T: t, Fn: fns[perm[j%len(fns)]]})
			}
			procs := 2 + rnd.IntN(3)
			for p := 0; p < procs; p++ {
				var ops []busdrv.Op
				for q := 0; q < 1+rnd.IntN(2); q++ {
					if rnd.IntN(3) == 0 {
						ops = append(ops, busdrv.Op{Op: "sub", T: t, Fn: fns[rnd.IntN(len(fns))]})
					} else {
						ops = append(ops, busdrv.Op{Op: "unsub", T: t, Fn: fns[perm[rnd.IntN(k)%len(fns)]]})
					}
				}
				s.Procs = append(s.Procs, ops)
			}
			s.Final = []busdrv.Op{{Op: "pub", T: t, Val: "a", Ctx: "bg"}, {Op: "count", T: t}}
			scripts = append(scripts, s)
			r.Case(scriptKey(s))
		}
		busdrv.ExecAndValidate(r, scripts, busdrv.ExecOpts{Name: fmt.Sprintf("c02-churn-mp%d", mp), Self: Self(), Seed: uint64(r.Seed)*7 + uint64(mp),
			Env: []string{fmt.Sprintf("GOMAXPROCS=%d", mp)}, HangIsViolation: true, HangClause: "no-deadlock", CrashClause: "data-race-or-crash", Classify: classifyBus})
	}
}
