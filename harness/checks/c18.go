package checks

import (
	"bytes"
	"context"
	"encoding/json"
	"fmt"
	"math/rand/v2"
	"reflect"
	"regexp"
	"sort"
	"strings"
	"time"

	eb "github.com/jilio/ebu"
	"github.com/jilio/ebu/state"

	"verif/harness/core"
	"verif/harness/storedrv"
)

func init() {
	registry["C18"] = func(r *core.Run) { stateCheck(r, "C18") }
	registry["C19"] = func(r *core.Run) { stateCheck(r, "C19") }
}

// entity types of the three collections (two registered under "ta"/"tb", "tc" unregistered)
type EntA struct {
	V    int               `json:"v"`
	Opt  string            `json:"opt,omitempty"`
	Tags map[string]string `json:"tags,omitempty"`
	L    []int             `json:"l,omitempty"`
}
type EntB struct {
	V   int     `json:"v"`
	Sub *EntSub `json:"sub,omitempty"`
}
type EntSub struct {
	X string `json:"x,omitempty"`
	Y int    `json:"y,omitempty"`
}
type EntC struct {
	V int `json:"v"`
}

// the model's values 1..5 stand for these entities (some omit fields others set)
func entA(v int) EntA {
	switch v {
	case 1:
		return EntA{V: 1, Opt: "o1", Tags: map[string]string{"a": "1", "b": "2"}, L: []int{1, 2}}
	case 2:
		return EntA{V: 2}
	case 3:
		return EntA{V: 3, Tags: map[string]string{"c": "3"}}
	case 4:
		return EntA{V: 4, Opt: "o4"}
	}
	return EntA{V: v, L: []int{v}}
}
func entB(v int) EntB {
	switch v {
	case 1:
		return EntB{V: 1, Sub: &EntSub{X: "x", Y: 1}}
	case 2:
		return EntB{V: 2}
	case 3:
		return EntB{V: 3, Sub: &EntSub{Y: 3}}
	}
	return EntB{V: v, Sub: &EntSub{X: "only-x"}}
}
func idxA(e EntA) int {
	for v := 1; v <= 5; v++ {
		if reflect.DeepEqual(e, entA(v)) {
			return v
		}
	}
	return -999
}
func idxB(e EntB) int {
	for v := 1; v <= 5; v++ {
		if reflect.DeepEqual(e, entB(v)) {
			return v
		}
	}
	return -999
}

func (EntA) StateTypeName() string { return "ta" }
func (EntB) StateTypeName() string { return "tb" }
func (EntC) StateTypeName() string { return "tc" }

type sMsg struct {
	Kind string `json:"kind"`
	Type string `json:"type,omitempty"`
	Key  string `json:"key,omitempty"`
	Val  int    `json:"val"`
}

var sKeys = []string{"a", "a/b", "b", "ta/a", "k with space", "ключ"}

func randomSMsg(rnd *rand.Rand) sMsg {
	t := []string{"ta", "tb", "tc"}[rnd.IntN(3)]
	k := sKeys[rnd.IntN(len(sKeys))]
	switch n := rnd.IntN(20); {
	case n < 7:
		return sMsg{Kind: "insert", Type: t, Key: k, Val: 1 + rnd.IntN(5)}
	case n < 11:
		return sMsg{Kind: "update", Type: t, Key: k, Val: 1 + rnd.IntN(5)}
	case n < 14:
		return sMsg{Kind: "delete", Type: t, Key: k}
	case n < 15:
		return sMsg{Kind: "reset"}
	case n < 16:
		return sMsg{Kind: "snapstart"}
	case n < 17:
		return sMsg{Kind: "snapend"}
	case n < 18:
		return sMsg{Kind: "garbage"}
	default:
		return sMsg{Kind: "badvalue", Type: t, Key: k}
	}
}

func changeOpts(rnd *rand.Rand) []state.ChangeOption {
	var o []state.ChangeOption
	if rnd.IntN(2) == 0 {
		o = append(o, state.WithTxID(fmt.Sprintf("tx-%d", rnd.IntN(100))))
	}
	switch rnd.IntN(3) {
	case 0:
		o = append(o, state.WithTimestamp(time.Date(2024, 1, 2, 3, 4, 5, rnd.IntN(1e9), time.FixedZone("X", 3600*rnd.IntN(5)))))
	case 1:
		o = append(o, state.WithAutoTimestamp())
	}
	return o
}

// publishSMsg sends the message through the real bus (helper constructors + Publish); garbage and bad values
// are appended to the store directly.
func publishSMsg(bus *eb.EventBus, store eb.EventStore, m sMsg, rnd *rand.Rand) error {
	mk := func(t string, f func() (*state.ChangeMessage, error)) error {
		msg, err := f()
		if err != nil {
			return err
		}
		if rnd.IntN(2) == 0 {
			eb.Publish(bus, msg)
		} else {
			eb.Publish(bus, *msg)
		}
		return nil
	}
	o := changeOpts(rnd)
	switch m.Kind {
	case "insert", "update":
		ins := m.Kind == "insert"
		switch m.Type {
		case "ta":
			return mk("ta", func() (*state.ChangeMessage, error) {
				if ins {
					return state.Insert(m.Key, entA(m.Val), o...)
				}
				if rnd.IntN(2) == 0 {
					return state.UpdateWithOldValue(m.Key, entA(m.Val), entA(1+rnd.IntN(5)), o...)
				}
				return state.Update(m.Key, entA(m.Val), o...)
			})
		case "tb":
			return mk("tb", func() (*state.ChangeMessage, error) {
				if ins {
					return state.Insert(m.Key, entB(m.Val), append(o, state.WithEntityType("tb"))...)
				}
				return state.Update(m.Key, entB(m.Val), o...)
			})
		default:
			return mk("tc", func() (*state.ChangeMessage, error) {
				if ins {
					return state.Insert(m.Key, EntC{m.Val}, o...)
				}
				return state.Update(m.Key, EntC{m.Val}, o...)
			})
		}
	case "delete":
		switch m.Type {
		case "ta":
			return mk("ta", func() (*state.ChangeMessage, error) {
				if rnd.IntN(2) == 0 {
					return state.DeleteWithOldValue(m.Key, entA(3), o...)
				}
				return state.Delete[EntA](m.Key, o...)
			})
		case "tb":
			return mk("tb", func() (*state.ChangeMessage, error) { return state.Delete[EntB](m.Key, o...) })
		default:
			return mk("tc", func() (*state.ChangeMessage, error) { return state.Delete[EntC](m.Key, o...) })
		}
	case "reset":
		eb.Publish(bus, state.Reset("x"))
	case "snapstart":
		eb.Publish(bus, *state.SnapshotStart("1"))
	case "snapend":
		eb.Publish(bus, state.SnapshotEnd("2"))
	case "garbage":
		docs := []string{`"just a string"`, `[1,2,3]`, `12`, `{"headers":17}`, `{"type":"ta","key":"a","value":{"v":1},"headers":"insert"}`}
		_, err := store.Append(context.Background(), &eb.Event{Type: "state.ChangeMessage", Data: []byte(docs[rnd.IntN(len(docs))]), Timestamp: time.Now()})
		return err
	case "badvalue":
		doc := fmt.Sprintf(`{"type":%q,"key":%q,"value":"not an object","headers":{"operation":"insert"}}`, m.Type, m.Key)
		if rnd.IntN(2) == 0 { // an insert / update that carries no value at all
			doc = fmt.Sprintf(`{"type":%q,"key":%q,"headers":{"operation":%q}}`, m.Type, m.Key, []string{"insert", "update"}[rnd.IntN(2)])
		}
		_, err := store.Append(context.Background(), &eb.Event{Type: "state.ChangeMessage", Data: []byte(doc), Timestamp: time.Now()})
		return err
	}
	return nil
}

type matz struct {
	m          *state.Materializer
	a          *state.TypedCollection[EntA]
	b          *state.TypedCollection[EntB]
	resets     int
	snaps      int
	errcb      int
	snaparg    string // argument of the last WithOnSnapshot call
}

func newMatz(strict bool) *matz {
	x := &matz{snaparg: "none"}
	opts := []state.MaterializerOption{state.WithOnReset(func() { x.resets++ }),
		state.WithOnSnapshot(func(start bool) {
			x.snaps++
			if start {
				x.snaparg = "start"
			} else {
				x.snaparg = "end"
			}
		}),
		state.WithOnError(func(error) { x.errcb++ })}
	if strict {
		opts = append(opts, state.WithStrictSchema())
	}
	x.m = state.NewMaterializer(opts...)
	x.a = state.NewTypedCollection[EntA](state.NewMemoryStore[EntA]())
	x.b = state.NewTypedCollectionWithType[EntB](state.NewMemoryStore[EntB](), "tb")
	state.RegisterCollection(x.m, x.a)
	state.RegisterCollection(x.m, x.b)
	return x
}

// triples projects the full state; keys come back as composite keys "type/key"
func (x *matz) triples() [][]any {
	out := [][]any{}
	add := func(t string, all map[string]int, get func(k string) (int, bool)) {
		var ks []string
		for ck := range all {
			ks = append(ks, ck)
		}
		sort.Strings(ks)
		for _, ck := range ks {
			k := strings.TrimPrefix(ck, t+"/")
			v := all[ck]
			if g, ok := get(k); !ok || g != v || !strings.HasPrefix(ck, t+"/") {
				v = -999 // All() and Get() disagree, or the composite key is malformed
			}
			out = append(out, []any{t, k, v})
		}
	}
	aa := map[string]int{}
	for k, v := range x.a.All() {
		aa[k] = idxA(v)
	}
	add("ta", aa, func(k string) (int, bool) { v, ok := x.a.Get(k); return idxA(v), ok })
	bb := map[string]int{}
	for k, v := range x.b.All() {
		bb[k] = idxB(v)
	}
	add("tb", bb, func(k string) (int, bool) { v, ok := x.b.Get(k); return idxB(v), ok })
	return out
}

// stateScenario: a random message log through bus and store, applied event by event; then the same log by a
// second materializer in two sessions.
func stateScenario(rnd *rand.Rand, storeKind, dir string, n int) ([][]byte, error) {
	var lines [][]byte
	emit := func(m map[string]any) {
		b, _ := json.Marshal(m)
		lines = append(lines, b)
	}
	env, err := storedrv.NewEnv(storeKind, dir, 1, 0)
	if err != nil {
		return nil, err
	}
	defer env.Close()
	store := env.Stores[0]
	bus := eb.New(eb.WithStore(store))
	strict := rnd.IntN(3) == 0
	var msgs []sMsg
	for i := 0; i < n; i++ {
		m := randomSMsg(rnd)
		if err := publishSMsg(bus, store, m, rnd); err != nil {
			return nil, err
		}
		msgs = append(msgs, m)
	}
	evs, _, err := store.Read(context.Background(), eb.OffsetOldest, 0)
	if err != nil {
		return nil, err
	}
	if len(evs) != len(msgs) {
		// a message built by the helper constructors did not make it into the store
		emit(map[string]any{"e": "new", "strict": false})
		emit(map[string]any{"e": "roundtrip", "ok": false, "why": fmt.Sprintf("the store holds %d events for %d published state messages", len(evs), len(msgs))})
		return lines, nil
	}
	offIdx := map[eb.Offset]int{"": 0}
	for i, e := range evs {
		offIdx[e.Offset] = i + 1
	}
	x := newMatz(strict)
	emit(map[string]any{"e": "new", "strict": strict})
	for i, e := range evs {
		err := x.m.Apply(e)
		emit(map[string]any{"e": "apply", "off": i + 1, "msg": msgs[i], "err": err != nil, "state": x.triples(),
			"last": offIdx[x.m.LastOffset()], "resets": x.resets, "snaps": x.snaps, "errcb": x.errcb, "snaparg": x.snaparg})
		// now and then a message goes in through the direct entry points (decoded from the stored document)
		if msgs[i].Kind != "garbage" && rnd.IntN(6) == 0 {
			var derr error
			switch msgs[i].Kind {
			case "reset", "snapstart", "snapend":
				var cm state.ControlMessage
				json.Unmarshal(e.Data, &cm)
				x.m.ApplyControlMessage(&cm)
			default:
				var cm state.ChangeMessage
				json.Unmarshal(e.Data, &cm)
				derr = x.m.ApplyChangeMessage(&cm)
			}
			emit(map[string]any{"e": "applydirect", "msg": msgs[i], "err": derr != nil, "state": x.triples(),
				"last": offIdx[x.m.LastOffset()], "resets": x.resets, "snaps": x.snaps, "errcb": x.errcb, "snaparg": x.snaparg})
		}
	}
	// two sessions: Replay up to a split point (the callback stops it), then resume from LastOffset
	y := newMatz(strict)
	split := rnd.IntN(len(evs) + 1)
	k := 0
	bus2 := eb.New(eb.WithStore(store))
	bus2.Replay(context.Background(), eb.OffsetOldest, func(se *eb.StoredEvent) error {
		if k >= split {
			return fmt.Errorf("session ends")
		}
		k++
		y.m.Apply(se)
		return nil
	})
	bus2.Replay(context.Background(), y.m.LastOffset(), func(se *eb.StoredEvent) error { y.m.Apply(se); return nil })
	emit(map[string]any{"e": "final", "state": y.triples(), "last": offIdx[y.m.LastOffset()], "split": split})
	return lines, nil
}

// ---- C19: round trips of rich entities and arbitrary bytes
// Money encodes itself through methods on the pointer receiver (as many hand-written codecs do).
type Money struct{ cents int64 }

func (m *Money) MarshalJSON() ([]byte, error) {
	return []byte(fmt.Sprintf(`"%d.%02d"`, m.cents/100, m.cents%100)), nil
}
func (m *Money) UnmarshalJSON(b []byte) error {
	var u, c int64
	if _, err := fmt.Sscanf(string(b), `"%d.%02d"`, &u, &c); err != nil {
		return fmt.Errorf("money %s: %w", b, err)
	}
	m.cents = u*100 + c
	return nil
}

// Bag is an entity whose JSON encoding is null when it is nil
type Bag map[string]int

type Rich struct {
	Total  Money             `json:"total"`
	Name   string            `json:"name"`
	Tags   []string          `json:"tags,omitempty"`
	Attrs  map[string]any    `json:"attrs,omitempty"`
	Nested *Rich             `json:"nested,omitempty"`
	F      float64           `json:"f"`
	Big    int64             `json:"big"`
	Labels map[string]string `json:"labels"`
}

func randRich(rnd *rand.Rand, depth int) Rich {
	strs := []string{"", "plain", "üñí", "<b>&</b>", "quote\"s", "tab\t", "日本", " "}
	r := Rich{Total: Money{int64(rnd.IntN(1000000))}, Name: strs[rnd.IntN(len(strs))], F: []float64{0, -0.5, 1e-9, 3.25, 1e15}[rnd.IntN(5)], Big: rnd.Int64() - rnd.Int64()}
	for i := 0; i < rnd.IntN(3); i++ {
		r.Tags = append(r.Tags, strs[rnd.IntN(len(strs))])
	}
	if rnd.IntN(2) == 0 {
		r.Attrs = map[string]any{"n": float64(rnd.IntN(9)), "s": strs[rnd.IntN(len(strs))], "b": rnd.IntN(2) == 0, "nil": nil}
	}
	if depth < 2 && rnd.IntN(3) == 0 {
		n := randRich(rnd, depth+1)
		r.Nested = &n
	}
	if rnd.IntN(2) == 0 {
		r.Labels = map[string]string{strs[rnd.IntN(len(strs))]: "x"}
	}
	return r
}

func roundTrips(rnd *rand.Rand, storeKind, dir string, n int) ([][]byte, error) {
	var lines [][]byte
	env, err := storedrv.NewEnv(storeKind, dir, 1, 0)
	if err != nil {
		return nil, err
	}
	defer env.Close()
	store := env.Stores[0]
	bus := eb.New(eb.WithStore(store))
	type exp struct {
		key string
		val *Rich
	}
	var exps []exp
	for i := 0; i < n; i++ {
		v := randRich(rnd, 0)
		key := sKeys[rnd.IntN(len(sKeys))] + fmt.Sprint(i)
		o := changeOpts(rnd)
		var msg *state.ChangeMessage
		switch rnd.IntN(3) {
		case 0:
			msg, err = state.Insert(key, v, o...)
		case 1:
			msg, err = state.Update(key, v, o...)
		default:
			msg, err = state.UpdateWithOldValue(key, v, randRich(rnd, 1), o...)
		}
		if err != nil {
			return nil, err
		}
		eb.Publish(bus, msg)
		vv := v
		exps = append(exps, exp{key, &vv})
	}
	// entities whose encoding is not an object: a nil map (JSON null), an empty and a one-entry map
	bags := []Bag{nil, {}, {"k": rnd.IntN(9)}}
	for i, b := range bags {
		var msg *state.ChangeMessage
		if rnd.IntN(2) == 0 {
			msg, err = state.Insert(fmt.Sprint("bag", i), b, changeOpts(rnd)...)
		} else {
			msg, err = state.Update(fmt.Sprint("bag", i), b, changeOpts(rnd)...)
		}
		if err != nil {
			return nil, err
		}
		eb.Publish(bus, msg)
	}
	m := state.NewMaterializer()
	c := state.NewTypedCollection[Rich](state.NewMemoryStore[Rich]())
	state.RegisterCollection(m, c)
	cb := state.NewTypedCollection[Bag](state.NewMemoryStore[Bag]())
	state.RegisterCollection(m, cb)
	if err := m.Replay(context.Background(), eb.New(eb.WithStore(store)), eb.OffsetOldest); err != nil {
		// messages built by the helper constructors from encodable entities: a replay that cannot apply them is a broken round trip
		b, _ := json.Marshal(map[string]any{"e": "roundtrip", "ok": false, "why": "replay of helper-built messages failed: " + err.Error(), "key": ""})
		return append(lines, b), nil
	}
	evs, _, _ := store.Read(context.Background(), eb.OffsetOldest, 0)
	for i, e := range exps {
		got, ok := c.Get(e.key)
		why := ""
		// compare through JSON (the entity's own encoding is the reference)
		wb, _ := json.Marshal(e.val)
		gb, _ := json.Marshal(&got)
		if !ok {
			why = "entity missing"
		} else if string(wb) != string(gb) {
			why = fmt.Sprintf("entity %s came back as %s", wb, gb)
		}
		// wire format: state-protocol field names
		if i < len(evs) {
			var doc map[string]json.RawMessage
			if json.Unmarshal(evs[i].Data, &doc) != nil {
				why = "stored document is not a JSON object"
			} else {
				var hdr map[string]json.RawMessage
				json.Unmarshal(doc["headers"], &hdr)
				var typ, key string
				json.Unmarshal(doc["type"], &typ)
				json.Unmarshal(doc["key"], &key)
				if typ != reflect.TypeOf(Rich{}).String() || key != e.key || doc["value"] == nil || hdr["operation"] == nil {
					why = fmt.Sprintf("wire document %s does not carry type/key/value/headers.operation", evs[i].Data)
				}
				for k := range doc {
					if k != "type" && k != "key" && k != "value" && k != "old_value" && k != "headers" {
						why = "unexpected wire field " + k
					}
				}
				if evs[i].Type != "state.ChangeMessage" {
					why = "stored under type " + evs[i].Type
				}
			}
		}
		b, _ := json.Marshal(map[string]any{"e": "roundtrip", "ok": why == "", "why": why, "key": e.key})
		lines = append(lines, b)
	}
	for i, want := range bags {
		key := fmt.Sprint("bag", i)
		got, ok := cb.Get(key)
		why := ""
		wb, _ := json.Marshal(want)
		gb, _ := json.Marshal(got)
		if !ok {
			why = "entity missing"
		} else if string(wb) != string(gb) {
			why = fmt.Sprintf("entity %s came back as %s", wb, gb)
		}
		b, _ := json.Marshal(map[string]any{"e": "roundtrip", "ok": why == "", "why": why, "key": key})
		lines = append(lines, b)
	}
	return lines, nil
}

func fuzzBytes(rnd *rand.Rand, n int) [][]byte {
	var lines [][]byte
	x := newMatz(rnd.IntN(2) == 0)
	valid := []string{
		`{"type":"ta","key":"a","value":{"v":1},"headers":{"operation":"insert"}}`,
		`{"type":"tb","key":"b","value":{"v":2},"headers":{"operation":"update","txid":"t"}}`,
		`{"type":"ta","key":"a","headers":{"operation":"delete"}}`,
		`{"headers":{"control":"reset"}}`, `{"headers":{"control":"snapshot-start","offset":"1"}}`,
	}
	for i := 0; i < n; i++ {
		var data []byte
		switch rnd.IntN(4) {
		case 0:
			data = make([]byte, rnd.IntN(40))
			for j := range data {
				data[j] = byte(rnd.IntN(256))
			}
		case 1:
			data = []byte(valid[rnd.IntN(len(valid))])
		default: // mutation of a valid document
			d := []byte(valid[rnd.IntN(len(valid))])
			switch rnd.IntN(5) {
			case 0:
				d = d[:rnd.IntN(len(d)+1)]
			case 1:
				d[rnd.IntN(len(d))] = byte(rnd.IntN(256))
			case 2:
				d = []byte(strings.Replace(string(d), `{"v":`, `{"v":"x`, 1))
			case 3:
				d = []byte(strings.Replace(string(d), `"operation"`, `"operation":1,"operation"`, 1))
			case 4:
				d = []byte(strings.Replace(string(d), `"type":"ta"`, `"type":["ta"]`, 1))
			}
			data = d
		}
		before := x.triples()
		lastBefore := x.m.LastOffset()
		off := eb.Offset(fmt.Sprintf("%020d", i+1))
		panicked := false
		var err error
		func() {
			defer func() {
				if recover() != nil {
					panicked = true
				}
			}()
			err = x.m.Apply(&eb.StoredEvent{Offset: off, Type: "state.ChangeMessage", Data: data, Timestamp: time.Now()})
		}()
		after := x.triples()
		b, _ := json.Marshal(map[string]any{"e": "fuzz", "err": err != nil, "changed": !reflect.DeepEqual(before, after),
			"lastmoved": x.m.LastOffset() != lastBefore, "panicked": panicked, "data": string(data)})
		lines = append(lines, b)
	}
	return lines
}

func stateCheck(r *core.Run, prop string) {
	r.Rule = "exhaustive TLC run of MCState (every message sequence up to MaxMsgs over two registered and one unregistered entity type, keys containing the separator, strict and non-strict: the collections are the fold of the log, LastOffset is the last successfully applied offset, resuming from it loses nothing); random message logs built with the real helper constructors (all option combinations, value and pointer messages), published through the real bus into memory and SQLite stores, applied event by event with the full projected state logged after every event, plus the same log applied in two sessions, validated against StateTrace.tla; C19: round trips of random rich entities and arbitrary / mutated bytes; a case is one message log"
	r.MustHold(core.TLCOpts{Module: "MCState", Config: pickCfg(r, "MCState.cfg", "MCState_thorough.cfg"), Timeout: 30 * time.Minute})
	rnd := rand.New(rand.NewPCG(uint64(r.Seed), 1818))
	var segs []core.Segment
	for i := 0; i < r.Pick(300, 5000); i++ {
		kind := "memory"
		if i%5 == 0 {
			kind = "sqlite-file"
		}
		lines, err := stateScenario(rnd, kind, r.Work, 5+rnd.IntN(40))
		if err != nil {
			r.Infra("state scenario: %v", err)
			return
		}
		segs = append(segs, core.Segment{Label: fmt.Sprintf("%s-log-%d", strings.ToLower(prop), i), Lines: lines, Meta: kind})
		r.Case(fmt.Sprintf("log/%d/%d", r.Seed, i))
	}
	if prop == "C19" {
		for i := 0; i < r.Pick(10, 100); i++ {
			kind := []string{"memory", "sqlite-file", "durable"}[i%3]
			lines, err := roundTrips(rnd, kind, r.Work, r.Pick(40, 300))
			if err != nil {
				r.Infra("round trips on %s: %v", kind, err)
				return
			}
			hdr, _ := json.Marshal(map[string]any{"e": "new", "strict": false})
			segs = append(segs, core.Segment{Label: fmt.Sprintf("c19-roundtrip-%s-%d", kind, i), Lines: append([][]byte{hdr}, lines...), Meta: kind})
			r.Case(fmt.Sprintf("roundtrip/%s/%d", kind, i))
		}
		for i := 0; i < r.Pick(20, 400); i++ {
			hdr, _ := json.Marshal(map[string]any{"e": "new", "strict": false})
			segs = append(segs, core.Segment{Label: fmt.Sprintf("c19-fuzz-%d", i), Lines: append([][]byte{hdr}, fuzzBytes(rnd, 250)...), Meta: "fuzz"})
			r.Case(fmt.Sprintf("fuzz/%d", i))
		}
	}
	if len(segs) > 0 {
		r.Sample(map[string]any{"trace_head": strings.Join(strings.SplitN(core.SegTrace(segs[0]), "\n", 5)[:4], " ")})
	}
	segSelfTest(r, "state", "StateTrace", "", segs, []core.Corruption{
		{"Apply reported an error for a message it applied", core.ReplaceFirst(`"e":"apply"`, `"err":false`, `"err":true`)},
		{"an applied insert is missing from the collections", func(lines [][]byte) [][]byte {
			re := regexp.MustCompile(`"state":\[\[[^\]]*\],?`)
			for i, l := range lines {
				if bytes.Contains(l, []byte(`"e":"apply"`)) && bytes.Contains(l, []byte(`"err":false`)) && re.Match(l) {
					out := append([][]byte{}, lines...)
					out[i] = re.ReplaceAll(l, []byte(`"state":[`))
					return out
				}
			}
			return nil
		}},
		{"the snapshot callback was told 'end' for a snapshot-start marker", core.ReplaceFirst(`"e":"apply"`, `"snaparg":"start"`, `"snaparg":"end"`)},
		{"the two-session materializer ended in another state", core.InsertIntoArray(`"e":"final"`, "state", `["ta","ghost",1]`)},
	})
	r.ValidateSegments(strings.ToLower(prop), "StateTrace", "", segs, func(rej core.SegReject) *core.Segment {
		var ev struct {
			E   string `json:"e"`
			Msg sMsg   `json:"msg"`
			Err bool   `json:"err"`
			Why string `json:"why"`
		}
		json.Unmarshal([]byte(rej.Text), &ev)
		clause, scen := "state-"+ev.E, ev.Msg.Kind
		switch ev.E {
		case "apply":
			clause = "fold-of-the-log"
		case "final":
			clause, scen = "two-sessions-equal-one", ""
		case "fuzz":
			clause, scen = "bad-input-rejected-without-damage", ""
		case "roundtrip":
			clause, scen = "round-trip", ""
		}
		art, _ := json.MarshalIndent(map[string]any{"store": rej.Seg.Meta, "first_unexplained_line": rej.Line, "event": json.RawMessage(rej.Text),
			"before": rej.Prev, "trace": core.SegTrace(rej.Seg), "spec": "StateTrace"}, "", " ")
		p := r.SaveReplay(rej.Seg.Label+".json", art)
		r.Violate(core.Violation{Clause: clause, Scenario: scen, Replay: p,
			Detail: fmt.Sprintf("materializer run is not accepted by StateTrace.tla at line %d: %s", rej.Line, core.Tail(rej.Text, 700))})
		return nil
	})
}
