package checks

import (
	"math/rand/v2"
	"time"

	"verif/harness/busdrv"
	"verif/harness/core"
	"verif/harness/gen"
)

func init() { registry["C04"] = c04 }

// C04: a Once handler fires at most once, and exactly once when eligible.
func c04(r *core.Run) {
	r.Rule = "exhaustive TLC run of MCBus_c04 (two concurrent publishers, Once registrations with filter / async, a cancellable context, cancel at any point) with the at-most-once / retired / not-wasted invariants, design mutants claimfirst and noclaim; TLC-generated single-goroutine behaviours and random sequential and concurrent (2-4 publishers, race detector) executions of the real bus validated against BusTrace.tla; a case is distinct by its script"
	r.MustHold(core.TLCOpts{Module: "MCBus_c02", Config: pickCfg(r, "MCBus_c04.cfg", "MCBus_c04_thorough.cfg"), Timeout: 40 * time.Minute})
	r.MustFail(core.TLCOpts{Module: "MCBus_c02", Config: "MCBus_c04_mut_claimfirst.cfg"}, "OnceNotWasted")

	// spec -> code: sequential behaviours from the model (eligible / filtered-out / pre-cancelled publishes)
	tm := map[string]string{"T1": gen.All[int(r.Seed)%len(gen.All)].Name}
	gs := busdrv.Generate(r, "MCBus_c02", "MCBus_c04_gen.cfg", r.Pick(300, 5000), 700, plainCfg, tm)
	for _, s := range gs {
		r.Case(scriptKey(s))
	}
	exec := busdrv.ExecOpts{Self: Self(), Seed: uint64(r.Seed), HangIsViolation: true, HangClause: "publish-returns",
		CrashClause: "no-panic-escapes", Classify: classifyBus}
	if len(gs) > 0 {
		r.Sample(gs[0])
		exec.Name = "c04-tlc"
		busdrv.ExecAndValidate(r, gs, exec)
	}
	// random sequential scripts: once-heavy, handlers that unsubscribe themselves or others, cancelled contexts
	rnd := rand.New(rand.NewPCG(uint64(r.Seed), 404))
	g := busdrv.GenOpts{Procs: 1, OpsPerProc: [2]int{10, 40}, Types: 2, Async: 0.25, Once: 0.8, Filt: 0.35, Body: 0.4, CtxBody: 0.3,
		Kinds: []string{"sub", "sub", "sub", "unsub", "count", "has", "pub", "pub", "pub", "pub", "cancel", "wait"},
		Ctxs:  []string{"c1", "c2"}, Cfgs: []busdrv.Cfg{plainCfg}}
	var scripts []busdrv.Script
	for i := 0; i < r.Pick(300, 5000); i++ {
		s := g.Random(rnd)
		scripts = append(scripts, s)
		r.Case(scriptKey(s))
	}
	exec.Name = "c04-seq"
	busdrv.ExecAndValidate(r, scripts, exec)
	// concurrent publishers racing on Once registrations
	g.Procs, g.OpsPerProc, g.Yield = 4, [2]int{3, 7}, true
	g.Kinds = []string{"sub", "sub", "unsub", "count", "pub", "pub", "pub", "pub", "pub", "cancel"}
	stress(r, "c04-stress", g, r.Pick(120, 2500), []int{1, 2, 4, 16}, 405, classifyBus, "no-deadlock")
}
