// Package checks holds one function per property; each decides its property with the TLA+
// specifications under /verif/spec and conformance executions of the real code.
package checks

import (
	"fmt"
	"os"
	"runtime/debug"

	"verif/harness/core"
)

type checkFn func(r *core.Run)

var registry = map[string]checkFn{}

// children: extra child-process subcommands registered by checks.
var children = map[string]func(args []string){}

// Self is the path of this binary (child processes are started from it).
func Self() string {
	p, err := os.Executable()
	if err != nil {
		return os.Args[0]
	}
	return p
}

// Run executes the check of one property and returns the process exit code.
func Run(prop, tier string) int {
	fn, ok := registry[prop]
	if !ok {
		fmt.Fprintf(os.Stderr, "no check for property %s\n", prop)
		return core.ExitInfra
	}
	r := core.NewRun(prop, tier)
	func() {
		defer func() {
			if p := recover(); p != nil {
				r.Infra("check panicked: %v\n%s", p, debug.Stack())
			}
		}()
		fn(r)
	}()
	return r.Finish()
}

// Child dispatches child-process subcommands.
func Child(args []string) bool {
	if fn, ok := children[args[0]]; ok {
		fn(args[1:])
		return true
	}
	return false
}
