package checks

import (
	"bytes"
	"context"
	"encoding/json"
	"fmt"
	"math/rand/v2"
	"os"
	"os/exec"
	"path/filepath"
	"reflect"
	"regexp"
	"runtime"
	"strconv"
	"strings"
	"sync"
	"sync/atomic"
	"time"

	eb "github.com/jilio/ebu"
	"github.com/jilio/ebu/state"
	"github.com/jilio/ebu/stores/sqlite"

	"verif/harness/busdrv"
	"verif/harness/core"
)

func init() {
	registry["C03"] = c03
	children["c03stress"] = c03StressChild
}

type LA struct{ N int }
type LB struct{ N int }
type LBad struct {
	N int
	C chan int
}

// reentrantPatterns executes every (callback kind x re-entrant operation) pair on a real persistent bus while
// another goroutine keeps writers queued on the same locks; a call still blocked after the watchdog is a deadlock.
func reentrantPatterns(r *core.Run) {
	kinds := []string{"handler", "ctxHandler", "filter", "beforeHook", "beforeCtxHook", "afterHook", "afterCtxHook", "panicHandler", "persistErrHandler", "replayCallback", "asyncHandler", "seqHandlerOtherType", "subscribeWithReplayHandler"}
	nested := []string{"publishOther", "publishSame", "subscribe", "unsubscribe", "clear", "clearall", "has", "count", "subscribeOnce", "wait-from-sync"}
	for _, k := range kinds {
		for _, n := range nested {
			if n == "publishSame" && (k == "beforeHook" || k == "beforeCtxHook" || k == "afterHook" || k == "afterCtxHook" || k == "filter" || k == "panicHandler" || k == "persistErrHandler") {
				continue // unbounded recursion by construction (the hook would run for its own publish), not a deadlock question
			}
			if n == "publishSame" && k == "seqHandlerOtherType" {
				continue // the documented exception: a synchronous Sequential handler publishing an event delivered back to itself
			}
			if n == "wait-from-sync" && k == "asyncHandler" {
				continue // an async handler waiting for all async handlers waits for itself by definition
			}
			label := k + "/" + n
			r.Case(label)
			done := make(chan struct{})
			go func() {
				defer close(done)
				runPattern(k, n)
			}()
			select {
			case <-done:
			case <-time.After(10 * time.Second):
				art, _ := json.MarshalIndent(map[string]any{"pattern": label, "goroutines": core.AllStacks()}, "", " ")
				p := r.SaveReplay("c03-deadlock-"+strings.ReplaceAll(label, "/", "_")+".json", art)
				r.Violate(core.Violation{Clause: "no-deadlock", Scenario: "re-entrant " + n + " from " + k, Replay: p,
					Detail: "the pattern " + label + " was still blocked after 10 s"})
			}
		}
	}
}

func hLA(LA) {}

func runPattern(kind, nested string) {
	store := eb.NewMemoryStore()
	var bus *eb.EventBus
	depth := int32(0)
	act := func() {
		if atomic.AddInt32(&depth, 1) > 1 { // re-enter once
			atomic.AddInt32(&depth, -1)
			return
		}
		defer atomic.AddInt32(&depth, -1)
		switch nested {
		case "publishOther":
			eb.Publish(bus, LB{N: 1})
		case "publishSame":
			eb.Publish(bus, LA{N: 2})
		case "subscribe":
			eb.Subscribe(bus, func(LA) {})
		case "subscribeOnce":
			eb.Subscribe(bus, func(LB) {}, eb.Once())
		case "unsubscribe":
			eb.Unsubscribe[LA](bus, hLA)
		case "clear":
			eb.Clear[LB](bus)
		case "clearall":
			eb.ClearAll(bus)
		case "has":
			eb.HasHandlers[LA](bus)
		case "count":
			eb.HandlerCount[LB](bus)
		case "wait-from-sync":
			bus.Wait()
		}
	}
	opts := []eb.Option{eb.WithStore(store)}
	switch kind {
	case "beforeHook":
		opts = append(opts, eb.WithBeforePublish(func(reflect.Type, any) { act() }))
	case "beforeCtxHook":
		opts = append(opts, eb.WithBeforePublishContext(func(context.Context, reflect.Type, any) { act() }))
	case "afterHook":
		opts = append(opts, eb.WithAfterPublish(func(reflect.Type, any) { act() }))
	case "afterCtxHook":
		opts = append(opts, eb.WithAfterPublishContext(func(context.Context, reflect.Type, any) { act() }))
	case "panicHandler":
		opts = append(opts, eb.WithPanicHandler(func(any, reflect.Type, any) { act() }))
	case "persistErrHandler":
		opts = append(opts, eb.WithPersistenceErrorHandler(func(any, reflect.Type, error) { act() }))
	}
	bus = eb.New(opts...)
	eb.Subscribe(bus, hLA)
	eb.Subscribe(bus, func(LB) {})
	switch kind {
	case "handler":
		eb.Subscribe(bus, func(LA) { act() })
	case "ctxHandler":
		eb.SubscribeContext(bus, func(context.Context, LA) { act() })
	case "asyncHandler":
		eb.Subscribe(bus, func(LA) { act() }, eb.Async())
	case "seqHandlerOtherType":
		eb.Subscribe(bus, func(LA) { act() }, eb.Sequential())
	case "filter":
		eb.Subscribe(bus, func(LA) {}, eb.WithFilter(func(LA) bool { act(); return true }))
	case "panicHandler":
		eb.Subscribe(bus, func(LA) { panic("p") })
	case "persistErrHandler":
		eb.Subscribe(bus, func(LBad) {})
	case "subscribeWithReplayHandler":
		eb.Publish(bus, LA{N: 0})
		eb.SubscribeWithReplay(context.Background(), bus, "s", func(LA) { act() })
	}
	// a second goroutine keeps writers and readers queued on the same locks
	stop := make(chan struct{})
	var wg sync.WaitGroup
	wg.Add(1)
	go func() {
		defer wg.Done()
		for i := 0; ; i++ {
			select {
			case <-stop:
				return
			default:
			}
			f := func(LA) {}
			eb.Subscribe(bus, f)
			eb.HandlerCount[LA](bus)
			eb.Subscribe(bus, func(LB) {})
			if i%7 == 0 {
				eb.Clear[LB](bus)
				eb.Subscribe(bus, func(LB) {})
			}
			if i%50 == 0 {
				runtime.Gosched()
			}
			if i > 3000 {
				return
			}
		}
	}()
	for i := 0; i < 30; i++ {
		switch kind {
		case "persistErrHandler":
			eb.Publish(bus, LBad{N: i, C: make(chan int)})
		case "replayCallback":
			eb.Publish(bus, LA{N: i})
			first := true
			bus.Replay(context.Background(), eb.OffsetOldest, func(*eb.StoredEvent) error {
				if first { // once per replay: a callback that publishes for every replayed event doubles the log each time
					first = false
					act()
				}
				return nil
			})
		default:
			eb.Publish(bus, LA{N: i})
		}
	}
	if nested != "wait-from-sync" || kind == "asyncHandler" {
		bus.Wait()
	}
	close(stop)
	wg.Wait()
	bus.Wait()
}

// c03StressChild: goroutines use every part of the API concurrently, with no harness synchronisation between
// them (a recorder would hide races); the race detector is the observer.
func c03StressChild(args []string) {
	seed, _ := strconv.ParseUint(args[0], 10, 64)
	ms, _ := strconv.Atoi(args[1])
	dir := args[2]
	deadline := time.Now().Add(time.Duration(ms) * time.Millisecond)
	mem := eb.NewMemoryStore()
	bus := eb.New(eb.WithStore(mem), eb.WithPanicHandler(func(any, reflect.Type, any) {}),
		eb.WithBeforePublish(func(reflect.Type, any) {}), eb.WithAfterPublishContext(func(context.Context, reflect.Type, any) {}),
		eb.WithPersistenceErrorHandler(func(any, reflect.Type, error) {}), eb.WithUpcastErrorHandler(func(string, json.RawMessage, error) {}))
	sq, err := sqlite.New(filepath.Join(dir, fmt.Sprintf("stress-%d.sqlite", seed)))
	if err != nil {
		fmt.Println("sqlite:", err)
		os.Exit(3)
	}
	sqBus := eb.New(eb.WithStore(sq))
	mat := state.NewMaterializer()
	coll := state.NewTypedCollection[EntA](state.NewMemoryStore[EntA]())
	state.RegisterCollection(mat, coll)
	var wg sync.WaitGroup
	worker := func(id int, f func(rnd *rand.Rand, i int)) {
		wg.Add(1)
		go func() {
			defer wg.Done()
			rnd := rand.New(rand.NewPCG(seed, uint64(id)))
			for i := 0; time.Now().Before(deadline); i++ {
				f(rnd, i)
			}
		}()
	}
	h1 := func(LA) {}
	var busy atomic.Int64
	for w := 0; w < 3; w++ {
		worker(10+w, func(rnd *rand.Rand, i int) { // publishers
			switch rnd.IntN(4) {
			case 0:
				eb.Publish(bus, LA{N: i})
			case 1:
				ctx, cancel := context.WithCancel(context.Background())
				if rnd.IntN(3) == 0 {
					cancel()
				}
				eb.PublishContext(bus, ctx, LB{N: i})
				cancel()
			case 2:
				eb.Publish(bus, LBad{N: i})
			default:
				eb.Publish(sqBus, LA{N: i})
			}
		})
	}
	worker(20, func(rnd *rand.Rand, i int) { // registry writers
		switch rnd.IntN(8) {
		case 0:
			eb.Subscribe(bus, h1)
		case 1:
			eb.Subscribe(bus, func(LA) {}, eb.Once())
		case 2:
			eb.Subscribe(bus, func(LB) {}, eb.Async())
		case 3:
			if rnd.IntN(2) == 0 {
				eb.Subscribe(bus, func(LB) { panic("x") }, eb.Async(), eb.Sequential())
			} else { // a handler that is busy for a moment, so that dispatches queue behind it (bounded: the first 4000 calls only)
				eb.Subscribe(bus, func(LB) {
					if busy.Add(1) < 4000 {
						time.Sleep(20 * time.Microsecond)
					}
				}, eb.Async(), eb.Sequential())
			}
		case 4:
			eb.SubscribeContext(bus, func(context.Context, LA) {}, eb.Sequential(), eb.WithFilter(func(e LA) bool { return e.N%2 == 0 }))
		case 5:
			eb.Unsubscribe[LA](bus, h1)
		case 6:
			eb.Clear[LB](bus)
		default:
			if rnd.IntN(10) == 0 {
				eb.ClearAll(bus)
			}
		}
	})
	worker(21, func(rnd *rand.Rand, i int) { // queries and waiting
		eb.HasHandlers[LA](bus)
		eb.HandlerCount[LB](bus)
		if i%5 == 0 {
			bus.Wait()
		}
	})
	worker(22, func(rnd *rand.Rand, i int) { bus.Wait(); sqBus.Wait() })
	worker(23, func(rnd *rand.Rand, i int) { // replay, upcasts
		switch rnd.IntN(5) {
		case 0:
			n := 0
			bus.Replay(context.Background(), eb.OffsetOldest, func(*eb.StoredEvent) error { n++; if n > 50 { return fmt.Errorf("enough") }; return nil })
		case 1:
			eb.RegisterUpcastFunc(bus, "checks.LA", fmt.Sprintf("v%d", rnd.IntN(4)), func(d json.RawMessage) (json.RawMessage, string, error) { return d, "x", nil })
		case 2:
			bus.ClearUpcasts()
		case 3:
			n := 0
			bus.ReplayWithUpcast(context.Background(), eb.OffsetOldest, func(*eb.StoredEvent) error { n++; if n > 50 { return fmt.Errorf("enough") }; return nil })
		default:
			sqBus.Replay(context.Background(), eb.OffsetOldest, func(*eb.StoredEvent) error { return fmt.Errorf("stop") })
		}
	})
	worker(24, func(rnd *rand.Rand, i int) { // resumable subscriptions
		b2 := eb.New(eb.WithStore(mem))
		eb.SubscribeWithReplay(context.Background(), b2, fmt.Sprintf("sub-%d", rnd.IntN(3)), func(LA) {})
		eb.Publish(b2, LA{N: -i})
	})
	worker(25, func(rnd *rand.Rand, i int) { // stores used directly
		ctx := context.Background()
		switch rnd.IntN(6) {
		case 0:
			mem.Append(ctx, &eb.Event{Type: "t", Data: []byte(`{}`), Timestamp: time.Now()})
		case 1:
			mem.Read(ctx, eb.OffsetOldest, 5)
		case 2:
			mem.SaveOffset(ctx, "x", "1")
			mem.LoadOffset(ctx, "x")
		case 3:
			sq.Append(ctx, &eb.Event{Type: "t", Data: []byte(`{}`), Timestamp: time.Now()})
		case 4:
			sq.Read(ctx, eb.OffsetOldest, 5)
		default:
			sq.SaveOffset(ctx, "x", "1")
			sq.LoadOffset(ctx, "x")
		}
	})
	for w := 0; w < 2; w++ {
		worker(30+w, func(rnd *rand.Rand, i int) { // materializer
			msg, _ := state.Insert(fmt.Sprintf("k%d", rnd.IntN(5)), entA(1+rnd.IntN(5)))
			data, _ := json.Marshal(msg)
			switch rnd.IntN(5) {
			case 0:
				mat.Apply(&eb.StoredEvent{Offset: eb.Offset(fmt.Sprint(i)), Type: "state.ChangeMessage", Data: data})
			case 1:
				mat.LastOffset()
			case 2:
				coll.Get("k1")
				coll.All()
			case 3:
				mat.ApplyControlMessage(state.Reset(""))
			default:
				d, _ := state.Delete[EntA]("k1")
				mat.ApplyChangeMessage(d)
			}
		})
	}
	wg.Wait()
	bus.Wait()
	sq.Close()
	os.Exit(0)
}

var reRaceFrame = regexp.MustCompile(`(?m)^\s+(github\.com/jilio/ebu[^\s(]*)`)

// C03: concurrent use of the API is free of data races and deadlocks.
func c03(r *core.Run) {
	r.Rule = "TLC deadlock check of Locks.tla (every lock of ebu as a writer-preferring RWMutex / mutex resource, every public operation as its acquire / release sequence with user-code points where re-entrant operations start; 2 goroutines, nesting depth 2) plus the two design mutants that must deadlock (the documented self-publishing Sequential handler, read lock held during dispatch); every (callback kind x re-entrant operation) pattern executed on the real persistent bus against queued writers under a 10 s watchdog; free-running mixes of all call kinds (publish, subscribe, unsubscribe, clear, queries, Wait, Replay, upcast registration, SubscribeWithReplay, memory and SQLite stores, materializer) with no harness synchronisation under the Go race detector at GOMAXPROCS 2/4/16; recorded multi-goroutine executions (busy Async+Sequential handlers, contexts cancelled behind queued dispatches, Wait, panics, store) under the race detector, validated against BusTrace.tla with a watchdog; the data-race clause is decided by the race detector, not by TLA+; a case is one pattern, script or stress run"
	r.Assume = append(r.Assume, "data races are observed by the Go race detector on the executed schedules only")
	r.MustHold(core.TLCOpts{Module: "MCLocks", Timeout: 30 * time.Minute})
	r.MustFail(core.TLCOpts{Module: "MCLocks", Config: "MCLocks_mut_selfpublish.cfg"}, "deadlock")
	r.MustFail(core.TLCOpts{Module: "MCLocks", Config: "MCLocks_mut_holdrlock.cfg"}, "deadlock")
	reentrantPatterns(r)
	self := RaceSelf()
	if self == Self() {
		r.Infra("race-detector build of the harness is missing")
		return
	}
	// recorded multi-goroutine executions with every kind of handler, re-entrant bodies, contexts cancelled behind
	// queued dispatches, Wait and Shutdown, under the race detector: a call that does not return is a deadlock, and the
	// recorded history must be a behaviour of Bus.tla (whose Wait / Shutdown / Sequential-turn steps only exist when the
	// code has released what it holds)
	lg := busdrv.GenOpts{Procs: 3, OpsPerProc: [2]int{4, 9}, Types: 2, Async: 0.55, Once: 0.15, Seq: 0.6, Filt: 0.1, Panics: 0.15, Body: 0.2, CtxBody: 0.2, Yield: true, Sleep: 400,
		Kinds: []string{"sub", "sub", "unsub", "pub", "pub", "pub", "pub", "pub", "count", "cancel", "wait", "clear"},
		Ctxs:  []string{"c1", "c2"}, Cfgs: []busdrv.Cfg{plainCfg, {PanicH: true}, {Obs: true}, {Store: true, PTimeout: true}}}
	stress(r, "c03-recorded", lg, r.Pick(60, 1200), []int{2, 16}, 303, classifyBus, "no-deadlock")
	runs := r.Pick(3, 12)
	for _, mp := range []int{2, 4, 16} {
		for i := 0; i < runs; i++ {
			seed := uint64(r.Seed)*100 + uint64(i)
			cmd := exec.Command(self, "c03stress", strconv.FormatUint(seed, 10), strconv.Itoa(r.Pick(1500, 6000)), r.Work)
			cmd.Env = append(os.Environ(), fmt.Sprintf("GOMAXPROCS=%d", mp), "GORACE=halt_on_error=1 exitcode=66")
			var out bytes.Buffer
			cmd.Stdout, cmd.Stderr = &out, &out
			done := make(chan error, 1)
			cmd.Start()
			go func() { done <- cmd.Wait() }()
			var err error
			select {
			case err = <-done:
			case <-time.After(90 * time.Second):
				cmd.Process.Signal(os.Interrupt)
				cmd.Process.Kill()
				<-done
				p := r.SaveReplay(fmt.Sprintf("c03-stress-hang-%d-%d.txt", mp, i), out.Bytes())
				r.Violate(core.Violation{Clause: "no-deadlock", Scenario: "free-running stress mix", Replay: p, Detail: "the stress process did not finish within 90 s"})
				continue
			}
			r.Case(fmt.Sprintf("stress/mp%d/%d", mp, seed))
			txt := out.String()
			switch {
			case strings.Contains(txt, "DATA RACE"):
				frames := reRaceFrame.FindAllStringSubmatch(txt, 6)
				var fs []string
				for _, f := range frames {
					fs = append(fs, f[1])
				}
				scen := "race"
				if len(fs) > 0 {
					scen = fs[0]
					for _, f := range fs[1:] {
						if f != fs[0] {
							scen += " vs " + f
							break
						}
					}
				}
				p := r.SaveReplay(fmt.Sprintf("c03-race-%d-%d.txt", mp, i), out.Bytes())
				r.Violate(core.Violation{Clause: "data-race", Scenario: scen, Replay: p, Detail: core.Tail(txt, 2500)})
			case err != nil:
				p := r.SaveReplay(fmt.Sprintf("c03-stress-crash-%d-%d.txt", mp, i), out.Bytes())
				r.Violate(core.Violation{Clause: "no-crash", Scenario: "free-running stress mix", Replay: p, Detail: core.Tail(txt, 2500)})
			}
		}
	}
}
