package checks

import (
	"bufio"
	"context"
	"encoding/json"
	"fmt"
	"math/rand/v2"
	"os"
	"os/exec"
	"path/filepath"
	"strconv"
	"strings"
	"sync"
	"syscall"
	"time"

	eb "github.com/jilio/ebu"
	"github.com/jilio/ebu/stores/sqlite"

	"verif/harness/core"
)

func init() {
	registry["C14"] = c14
	children["c14child"] = c14Child
}

type dEvent struct {
	ID  int    `json:"id"`
	Pad string `json:"pad"`
}

// c14Child is the process that gets killed: it appends events and saves subscription offsets, reporting
// "start"/"ack" lines on stdout (unbuffered) around every call.
func c14Child(args []string) {
	path := args[0]
	first, _ := strconv.Atoi(args[1])
	n, _ := strconv.Atoi(args[2])
	s, err := sqlite.New(path)
	if err != nil {
		fmt.Println("error", err)
		os.Exit(3)
	}
	out := os.Stdout
	writers := 1
	if len(args) > 4 {
		writers, _ = strconv.Atoi(args[4])
	}
	var wg sync.WaitGroup
	for w := 0; w < writers; w++ {
		wg.Add(1)
		go func(w int) {
			defer wg.Done()
			for i := w; i < n; i += writers {
				id := first + i
				fmt.Fprintf(out, "start %d\n", id)
				data, _ := json.Marshal(dEvent{ID: id, Pad: strings.Repeat("p", 10+id%50)})
				off, err := s.Append(context.Background(), &eb.Event{Type: "checks.dEvent", Data: data, Timestamp: time.Now()})
				if err != nil {
					fmt.Fprintf(out, "error %v\n", err)
					os.Exit(3)
				}
				fmt.Fprintf(out, "ack %d %s\n", id, off)
				if i%2 == 1 && writers == 1 {
					pos, _ := strconv.Atoi(string(off))
					if i%4 == 3 { // first an attempt whose context is already cancelled: it fails without effect, or succeeds
						fmt.Fprintf(out, "savestart %d\n", pos)
						cctx, cancel := context.WithCancel(context.Background())
						cancel()
						if err := s.SaveOffset(cctx, "sub", off); err != nil {
							fmt.Fprintf(out, "saverefused %d\n", pos)
						} else {
							fmt.Fprintf(out, "saveack %d\n", pos)
						}
					}
					fmt.Fprintf(out, "savestart %d\n", pos)
					if err := s.SaveOffset(context.Background(), "sub", off); err != nil {
						fmt.Fprintf(out, "error %v\n", err)
						os.Exit(3)
					}
					fmt.Fprintf(out, "saveack %d\n", pos)
					if i%6 == 5 { // the subscription is rewound to the beginning
						fmt.Fprintf(out, "savestart 0\n")
						if err := s.SaveOffset(context.Background(), "sub", eb.OffsetOldest); err != nil {
							fmt.Fprintf(out, "error %v\n", err)
							os.Exit(3)
						}
						fmt.Fprintf(out, "saveack 0\n")
					}
				}
			}
		}(w)
	}
	wg.Wait()
	if len(args) > 3 && args[3] == "close" {
		s.Close()
		fmt.Fprintln(out, "closed")
	}
	os.Exit(0)
}

func readAll(path string) (ids []int, incr, payloadOK bool, saved int, err error) {
	s, err := sqlite.New(path)
	if err != nil {
		return nil, false, false, 0, err
	}
	defer s.Close()
	evs, _, err := s.Read(context.Background(), eb.OffsetOldest, 0)
	if err != nil {
		return nil, false, false, 0, err
	}
	incr, payloadOK = true, true
	prev := 0
	for _, e := range evs {
		var d dEvent
		if json.Unmarshal(e.Data, &d) != nil || e.Type != "checks.dEvent" || d.Pad != strings.Repeat("p", 10+d.ID%50) {
			payloadOK = false
		}
		p, perr := strconv.Atoi(string(e.Offset))
		if perr != nil || p <= prev {
			incr = false
		}
		prev = p
		ids = append(ids, d.ID)
	}
	off, err := s.LoadOffset(context.Background(), "sub")
	if err != nil {
		return nil, false, false, 0, err
	}
	if off != eb.OffsetOldest {
		saved, _ = strconv.Atoi(string(off))
	}
	return ids, incr, payloadOK, saved, nil
}

// killHistory: several generations of a child writing to one database, each killed after an arbitrary report
// (or closed cleanly), each followed by two reopenings and one append by the parent.
func killHistory(r *core.Run, rnd *rand.Rand, idx int) ([][]byte, string, error) {
	var lines [][]byte
	emit := func(m map[string]any) {
		b, _ := json.Marshal(m)
		lines = append(lines, b)
	}
	path := filepath.Join(r.Work, fmt.Sprintf("kill-%d.sqlite", idx))
	defer func() { os.Remove(path); os.Remove(path + "-wal"); os.Remove(path + "-shm") }()
	emit(map[string]any{"e": "reset"})
	next := 1
	var desc []string
	gens := 1 + rnd.IntN(3)
	for g := 0; g < gens; g++ {
		n := 2 + rnd.IntN(12)
		clean := rnd.IntN(5) == 0
		killAfter := 1 + rnd.IntN(4*n)
		writers := 1
		if rnd.IntN(3) == 0 {
			writers = 2
		}
		mode := "kill"
		if clean {
			mode = "close"
		}
		args := []string{"c14child", path, strconv.Itoa(next), strconv.Itoa(n), mode, strconv.Itoa(writers)}
		cmd := exec.Command(Self(), args...)
		stdout, _ := cmd.StdoutPipe()
		if err := cmd.Start(); err != nil {
			return nil, "", err
		}
		sc := bufio.NewScanner(stdout)
		reports := 0
		killed := false
		for sc.Scan() {
			f := strings.Fields(sc.Text())
			if len(f) == 0 {
				continue
			}
			switch f[0] {
			case "start":
				id, _ := strconv.Atoi(f[1])
				emit(map[string]any{"e": "start", "id": id})
			case "ack":
				id, _ := strconv.Atoi(f[1])
				emit(map[string]any{"e": "ack", "id": id, "off": f[2]})
			case "savestart":
				p, _ := strconv.Atoi(f[1])
				emit(map[string]any{"e": "savestart", "pos": p})
			case "saveack":
				p, _ := strconv.Atoi(f[1])
				emit(map[string]any{"e": "saveack", "pos": p})
			case "saverefused":
				p, _ := strconv.Atoi(f[1])
				emit(map[string]any{"e": "saverefused", "pos": p})
			case "error":
				cmd.Process.Kill()
				cmd.Wait()
				return nil, "", fmt.Errorf("child: %s", sc.Text())
			}
			reports++
			if !clean && !killed && reports >= killAfter {
				time.Sleep(time.Duration(rnd.IntN(400)) * time.Microsecond)
				cmd.Process.Signal(syscall.SIGKILL)
				killed = true
				// keep reading: what the child reported before it died is in the pipe
			}
		}
		cmd.Wait()
		next += n
		if killed {
			emit(map[string]any{"e": "kill"})
			desc = append(desc, fmt.Sprintf("kill@%d/%d/w%d", killAfter, n, writers))
		} else {
			emit(map[string]any{"e": "close"})
			desc = append(desc, fmt.Sprintf("close/%d", n))
		}
		ids, incr, pok, saved, err := readAll(path)
		if err != nil {
			emit(map[string]any{"e": "openerror", "msg": err.Error()})
			return lines, strings.Join(desc, " "), nil
		}
		if ids == nil {
			ids = []int{}
		}
		emit(map[string]any{"e": "open", "log": ids, "writers": writers, "offsincreasing": incr, "payloadok": pok, "saved": saved})
		ids2, _, _, saved2, err := readAll(path)
		if err != nil {
			emit(map[string]any{"e": "openerror", "msg": err.Error()})
			return lines, strings.Join(desc, " "), nil
		}
		if ids2 == nil {
			ids2 = []int{}
		}
		emit(map[string]any{"e": "reopen", "log": ids2, "saved": saved2, "savedbefore": saved})
		// the parent appends once more
		s, err := sqlite.New(path)
		if err != nil {
			emit(map[string]any{"e": "openerror", "msg": err.Error()})
			return lines, strings.Join(desc, " "), nil
		}
		id := next
		next++
		data, _ := json.Marshal(dEvent{ID: id, Pad: strings.Repeat("p", 10+id%50)})
		off, err := s.Append(context.Background(), &eb.Event{Type: "checks.dEvent", Data: data, Timestamp: time.Now()})
		greater := err == nil
		if err == nil {
			p, _ := strconv.Atoi(string(off))
			greater = p > len(ids)
			evs, _, _ := s.Read(context.Background(), eb.OffsetOldest, 0)
			for _, e := range evs[:max(0, len(evs)-1)] {
				q, _ := strconv.Atoi(string(e.Offset))
				if q >= p {
					greater = false
				}
			}
		}
		s.Close()
		emit(map[string]any{"e": "appendafter", "id": id, "greater": greater})
	}
	return lines, strings.Join(desc, " "), nil
}

// C14: what the SQLite store acknowledged survives reopening and a killed process.
func c14(r *core.Run) {
	r.Rule = "exhaustive TLC run of Durable.tla (two writers, start / commit / acknowledge, kill at any instant or clean close, reopen, up to three generations); histories on the real SQLite store: a child process appends and saves offsets and reports start/ack over a pipe, the parent kills it with SIGKILL after an arbitrary report plus a random sub-millisecond delay (or lets it close), reopens twice, reads everything back and appends once more, up to three generations per database; each history validated against DurableTrace.tla; a case is one kill history"
	r.MustHold(core.TLCOpts{Module: "Durable", Timeout: 10 * time.Minute})
	rnd := rand.New(rand.NewPCG(uint64(r.Seed), 1414))
	var segs []core.Segment
	for i := 0; i < r.Pick(100, 1500); i++ {
		lines, desc, err := killHistory(r, rnd, i)
		if err != nil {
			r.Infra("kill history: %v", err)
			return
		}
		segs = append(segs, core.Segment{Label: fmt.Sprintf("c14-%d", i), Lines: lines, Meta: desc})
		r.Case(fmt.Sprintf("c14/%d/%s", i, desc))
	}
	if len(segs) > 0 {
		r.Sample(map[string]any{"history": segs[0].Meta, "trace": core.SegTrace(segs[0])})
	}
	segSelfTest(r, "durable", "DurableTrace", "", segs, []core.Corruption{
		{"an event in the reopened log that nobody appended", core.InsertIntoArray(`"e":"open"`, "log", "424242")},
		{"the payload came back altered", core.ReplaceFirst(`"e":"open"`, `"payloadok":true`, `"payloadok":false`)},
		{"the second open saw another log", core.InsertIntoArray(`"e":"reopen"`, "log", "424242")},
	})
	r.ValidateSegments("c14", "DurableTrace", "", segs, func(rej core.SegReject) *core.Segment {
		var ev struct {
			E string `json:"e"`
		}
		json.Unmarshal([]byte(rej.Text), &ev)
		killed := strings.Contains(core.SegTrace(rej.Seg), `"e":"kill"`)
		scen := "after a clean close"
		if killed {
			scen = "after SIGKILL"
		}
		art, _ := json.MarshalIndent(map[string]any{"history": rej.Seg.Meta, "first_unexplained_line": rej.Line, "event": json.RawMessage(rej.Text),
			"before": rej.Prev, "trace": core.SegTrace(rej.Seg), "spec": "DurableTrace"}, "", " ")
		p := r.SaveReplay(rej.Seg.Label+".json", art)
		r.Violate(core.Violation{Clause: "durable-" + ev.E, Scenario: scen, Replay: p,
			Detail: fmt.Sprintf("kill/reopen history (%s) of the real SQLite store is not accepted by DurableTrace.tla at line %d: %s (before: %s)", rej.Seg.Meta, rej.Line, rej.Text, strings.Join(rej.Prev, " "))})
		return nil
	})
}
