package checks

import (
	"math/rand/v2"
	"time"

	"verif/harness/busdrv"
	"verif/harness/core"
	"verif/harness/gen"
)

func init() {
	registry["C05"] = c05
	registry["C08"] = c08
}

func allCfgs(pred func(busdrv.Cfg) bool) []busdrv.Cfg {
	var out []busdrv.Cfg
	for m := 0; m < 64; m++ {
		c := busdrv.Cfg{Obs: m&1 != 0, Before: m&2 != 0, BeforeCtx: m&4 != 0, After: m&8 != 0, AfterCtx: m&16 != 0, PanicH: m&32 != 0}
		if pred(c) {
			out = append(out, c)
		}
	}
	return out
}

func seqAndStress(r *core.Run, name, module, genCfg string, tlcNum int, g busdrv.GenOpts, nSeq, nStress int, salt uint64) {
	exec := busdrv.ExecOpts{Self: Self(), Seed: uint64(r.Seed), HangIsViolation: true, HangClause: "calls-return",
		CrashClause: "no-panic-escapes", Classify: classifyBus}
	tm := map[string]string{"T1": gen.All[int(r.Seed)%len(gen.All)].Name, "T2": gen.All[(int(r.Seed)+7)%len(gen.All)].Name}
	if genCfg != "" {
		gs := busdrv.Generate(r, module, genCfg, tlcNum, 800, plainCfg, tm)
		for _, s := range gs {
			r.Case(scriptKey(s))
		}
		if len(gs) > 0 {
			r.Sample(gs[0])
			exec.Name = name + "-tlc"
			busdrv.ExecAndValidate(r, gs, exec)
		}
	}
	rnd := rand.New(rand.NewPCG(uint64(r.Seed), salt))
	g.Procs = 1
	var scripts []busdrv.Script
	for i := 0; i < nSeq; i++ {
		s := g.Random(rnd)
		scripts = append(scripts, s)
		r.Case(scriptKey(s))
	}
	if len(scripts) > 0 {
		r.Sample(scripts[0])
		exec.Name = name + "-seq"
		busdrv.ExecAndValidate(r, scripts, exec)
	}
	if nStress > 0 {
		g.Procs, g.OpsPerProc, g.Yield = 3, [2]int{3, 8}, true
		stressWith(r, name+"-stress", g, nStress, []int{1, 4, 16}, salt+1, classifyBus, "calls-return", Self())
	}
}

// C05: a panicking handler never harms the publisher or the other handlers.
func c05(r *core.Run) {
	r.Rule = "exhaustive TLC run of MCBus_c05 (all 16 option combinations of sync/async x once x sequential x panics, with and without panic handler and observability); TLC-generated and random executions of the real bus with panicking handlers (sequential and 3 concurrent publishers), validated against BusTrace.tla: every other handler still runs, the panic handler is called exactly once with the event / handler type / value, Publish and Wait return (watchdog), a panic that escapes kills the driver process and is a violation; a case is distinct by its script"
	r.MustHold(core.TLCOpts{Module: "MCBus_c05", Config: "MCBus_c05.cfg", Timeout: 30 * time.Minute})
	g := busdrv.GenOpts{OpsPerProc: [2]int{8, 30}, Types: 2, Async: 0.4, Once: 0.3, Seq: 0.4, Filt: 0.1, Panics: 0.45, Body: 0.2,
		Kinds: []string{"sub", "sub", "sub", "unsub", "count", "pub", "pub", "pub", "pub", "wait"},
		Cfgs:  allCfgs(func(c busdrv.Cfg) bool { return !c.Before && !c.BeforeCtx && !c.After && !c.AfterCtx })}
	seqAndStress(r, "c05", "MCBus_c05", "MCBus_c05_gen.cfg", r.Pick(300, 5000), g, r.Pick(300, 5000), r.Pick(60, 1500), 505)
}

// C08: cancellation, context propagation and publish hooks behave predictably.
func c08(r *core.Run) {
	r.Rule = "exhaustive TLC run of MCBus_c08 (handlers that cancel or sample the publish context, pre-cancelled publishes, 6 hook/observability configurations); TLC-generated and random executions of the real bus over all 32 hook configurations, handlers cancelling contexts from inside, context-aware handlers logging the values and tokens their context carries, validated against BusTrace.tla (no synchronous handler starts once the context is cancelled, every hook exactly once in its place, context lineage); a case is distinct by its script"
	r.MustHold(core.TLCOpts{Module: "MCBus_c05", Config: "MCBus_c08.cfg", Timeout: 30 * time.Minute})
	g := busdrv.GenOpts{OpsPerProc: [2]int{8, 30}, Types: 2, Async: 0.3, Once: 0.2, Filt: 0.15, Body: 0.15, CtxBody: 0.4,
		Kinds: []string{"sub", "sub", "sub", "unsub", "count", "pub", "pub", "pub", "pub", "cancel", "ctxerr", "wait"},
		Ctxs:  []string{"c1", "c2", "c3"},
		Cfgs:  allCfgs(func(c busdrv.Cfg) bool { return !c.PanicH })}
	seqAndStress(r, "c08", "MCBus_c05", "MCBus_c08_gen.cfg", r.Pick(300, 1500), g, r.Pick(400, 4000), r.Pick(60, 600), 808)
	// the same on a bus with a store (persistence step, persistence timeout) and with contexts that end by deadline
	pipeline(r, "c08", false, r.Pick(200, 2500), r.Pick(20, 250), 881, func(c busdrv.Cfg) bool { return !c.PanicH }, nil)
}
