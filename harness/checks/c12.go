package checks

import (
	"bytes"
	"context"
	"encoding/json"
	"errors"
	"fmt"
	"iter"
	"math/rand/v2"
	"runtime"
	"strings"
	"sync"
	"time"

	eb "github.com/jilio/ebu"

	"verif/harness/core"
	"verif/harness/storedrv"
)

func init() { registry["C12"] = c12 }

type RA struct {
	ID int `json:"id"`
}
type RB struct {
	ID int `json:"id"`
}

// rStore wraps a real store: logs every operation with the log position its offset denotes, fails an
// operation once on request and "crashes" (ends the calling goroutine) after a chosen operation.
type rStore struct {
	mu       sync.Mutex
	inner    eb.EventStore
	subInner eb.SubscriptionStore // defaults to inner
	emit     func(map[string]any)
	pos      map[eb.Offset]int
	n        int
	ops      int
	crashAt  int
	failNext map[string]bool
	crashed  bool
	gate     func(kind string) // optional: called before an operation (interleaving probes)
}

var errInjected = errors.New("verif: injected store failure")

func (s *rStore) before(kind string) error {
	if s.gate != nil {
		s.gate(kind)
	}
	s.mu.Lock()
	defer s.mu.Unlock()
	s.ops++
	if s.failNext[kind] {
		delete(s.failNext, kind)
		s.emit(map[string]any{"e": "disturb", "what": "injected failure of " + kind})
		return errInjected
	}
	return nil
}

func (s *rStore) after() {
	s.mu.Lock()
	crash := s.crashAt > 0 && s.ops >= s.crashAt
	if crash {
		s.crashAt = 0
		s.crashed = true
		s.emit(map[string]any{"e": "disturb", "what": "crash after store operation"})
	}
	s.mu.Unlock()
	if crash {
		runtime.Goexit() // the "process" dies here: deferred unlocks run, nothing else does
	}
}

func (s *rStore) Append(ctx context.Context, e *eb.Event) (eb.Offset, error) {
	if err := s.before("append"); err != nil {
		return "", err
	}
	off, err := s.inner.Append(ctx, e)
	if err == nil {
		var doc RA
		json.Unmarshal(e.Data, &doc)
		s.mu.Lock()
		s.n++
		s.pos[off] = s.n
		s.emit(map[string]any{"e": "append", "ev": doc.ID, "type": e.Type})
		s.mu.Unlock()
	}
	s.after()
	return off, err
}
func (s *rStore) Read(ctx context.Context, from eb.Offset, limit int) ([]*eb.StoredEvent, eb.Offset, error) {
	if err := s.before("read"); err != nil {
		return nil, from, err
	}
	evs, next, err := s.inner.Read(ctx, from, limit)
	s.after()
	return evs, next, err
}
func (s *rStore) position(off eb.Offset) int {
	if off == eb.OffsetOldest {
		return 0
	}
	if p, ok := s.pos[off]; ok {
		return p
	}
	if string(off) == "0" { // SQLite's rendering of the oldest position
		return 0
	}
	return -1
}
func (s *rStore) SaveOffset(ctx context.Context, id string, off eb.Offset) error {
	if err := s.before("save"); err != nil {
		return err
	}
	err := s.subStore().SaveOffset(ctx, id, off)
	if err == nil {
		s.mu.Lock()
		s.emit(map[string]any{"e": "save", "sub": id, "pos": s.position(off), "off": string(off)})
		s.mu.Unlock()
	}
	s.after()
	return err
}
func (s *rStore) LoadOffset(ctx context.Context, id string) (eb.Offset, error) {
	if err := s.before("load"); err != nil {
		return eb.OffsetOldest, err
	}
	off, err := s.subStore().LoadOffset(ctx, id)
	s.after()
	return off, err
}

func (s *rStore) subStore() eb.SubscriptionStore {
	if s.subInner != nil {
		return s.subInner
	}
	return s.inner.(eb.SubscriptionStore)
}

type rStreamStore struct{ *rStore }

func (s rStreamStore) ReadStream(ctx context.Context, from eb.Offset) iter.Seq2[*eb.StoredEvent, error] {
	return func(yield func(*eb.StoredEvent, error) bool) {
		if err := s.before("read"); err != nil {
			yield(nil, err)
			return
		}
		for e, err := range s.inner.(eb.EventStoreStreamer).ReadStream(ctx, from) {
			if !yield(e, err) {
				return
			}
		}
	}
}

type resumeWorld struct {
	store   *rStore
	asStore eb.EventStore
	bus     *eb.EventBus
	lines   [][]byte
	lmu     sync.Mutex
	live    map[string]bool
	types   map[string]string
	nextEv  int
	paged   bool
}

func (w *resumeWorld) emit(m map[string]any) {
	b, _ := json.Marshal(m)
	w.lmu.Lock()
	w.lines = append(w.lines, b)
	w.lmu.Unlock()
}

// call runs an API call in a goroutine of its own, so that a simulated crash ends only that goroutine.
func (w *resumeWorld) call(f func()) (hung bool) {
	done := make(chan struct{})
	go func() {
		defer close(done)
		f()
	}()
	select {
	case <-done:
	case <-time.After(10 * time.Second):
		return true
	}
	return false
}

func (w *resumeWorld) restart() {
	w.emit(map[string]any{"e": "restart"})
	w.bus = w.newBus()
	w.live = map[string]bool{}
	w.store.mu.Lock()
	w.store.crashed = false
	w.store.mu.Unlock()
}

func (w *resumeWorld) publish(typ string) {
	w.nextEv++
	id := w.nextEv
	w.call(func() {
		if typ == "A" {
			eb.Publish(w.bus, RA{ID: id})
		} else {
			eb.Publish(w.bus, RB{ID: id})
		}
	})
}

func (w *resumeWorld) subscribe(sub string) {
	typ := w.types[sub]
	name := "checks.RA"
	if typ == "B" {
		name = "checks.RB"
	}
	w.emit(map[string]any{"e": "subscribe", "sub": sub, "type": name})
	w.call(func() {
		var err error
		if typ == "A" {
			err = eb.SubscribeWithReplay(context.Background(), w.bus, sub, func(e RA) { w.emit(map[string]any{"e": "deliver", "sub": sub, "ev": e.ID}) })
		} else {
			err = eb.SubscribeWithReplay(context.Background(), w.bus, sub, func(e RB) { w.emit(map[string]any{"e": "deliver", "sub": sub, "ev": e.ID}) })
		}
		if err == nil {
			w.live[sub] = true
			w.emit(map[string]any{"e": "subscribed", "sub": sub})
		}
	})
}

// newBus: in a "-paged" world the store does not stream and bus.Replay pages through it two events at a time
func (w *resumeWorld) newBus() *eb.EventBus {
	if w.paged {
		return eb.New(eb.WithStore(w.asStore), eb.WithReplayBatchSize(2))
	}
	return eb.New(eb.WithStore(w.asStore))
}

func newResumeWorld(kind, dir string) (*resumeWorld, func(), error) {
	paged := strings.HasSuffix(kind, "-paged")
	kind = strings.TrimSuffix(kind, "-paged")
	env, err := storedrv.NewEnv(kind, dir, 1, 0)
	if err != nil {
		return nil, nil, err
	}
	w := &resumeWorld{live: map[string]bool{}, types: map[string]string{"s1": "A", "s2": "B", "s3": "A"}}
	w.store = &rStore{inner: env.Stores[0], emit: w.emit, pos: map[eb.Offset]int{}, failNext: map[string]bool{}}
	if _, ok := env.Stores[0].(eb.SubscriptionStore); !ok {
		w.store.subInner = eb.NewMemoryStore()
	}
	w.paged = paged
	if _, ok := env.Stores[0].(eb.EventStoreStreamer); ok && !paged {
		w.asStore = rStreamStore{w.store}
	} else {
		w.asStore = w.store
	}
	w.emit(map[string]any{"e": "reset"})
	w.bus = w.newBus()
	return w, env.Close, nil
}

// resumeScenario runs a random history of publishes, subscriptions, restarts, crashes and failing store operations.
func resumeScenario(rnd *rand.Rand, kind, dir string, steps int, faults bool) ([][]byte, string, error) {
	w, closeEnv, err := newResumeWorld(kind, dir)
	if err != nil {
		return nil, "", err
	}
	defer closeEnv()
	var desc []string
	for i := 0; i < steps; i++ {
		if w.store.crashed {
			w.restart()
			desc = append(desc, "restart-after-crash")
		}
		switch k := rnd.IntN(20); {
		case k < 10:
			t := []string{"A", "A", "B"}[rnd.IntN(3)]
			w.publish(t)
			desc = append(desc, "pub"+t)
		case k < 14:
			sub := []string{"s1", "s2", "s3"}[rnd.IntN(3)]
			if !w.live[sub] {
				w.subscribe(sub)
				desc = append(desc, "sub-"+sub)
			}
		case k < 16:
			w.restart()
			desc = append(desc, "restart")
		case k < 18 && faults:
			w.store.mu.Lock()
			w.store.crashAt = w.store.ops + 1 + rnd.IntN(5)
			w.store.mu.Unlock()
			desc = append(desc, "crashplan")
		case faults:
			kind := []string{"append", "save", "load", "read"}[rnd.IntN(4)]
			w.store.mu.Lock()
			w.store.failNext[kind] = true
			w.store.mu.Unlock()
			desc = append(desc, "fail-"+kind)
		}
	}
	// settle: no more faults, restart, bring every subscription up, publish once more, check that nothing is missing
	w.store.mu.Lock()
	w.store.crashAt, w.store.failNext = 0, map[string]bool{}
	w.store.mu.Unlock()
	w.restart()
	for _, sub := range []string{"s1", "s2", "s3"} {
		w.subscribe(sub)
	}
	w.publish("A")
	w.publish("B")
	w.emit(map[string]any{"e": "quiet"})
	return w.lines, strings.Join(desc, " "), nil
}

func classifyResume(rej core.SegReject, kind string, faults bool) (string, string) {
	var ev struct {
		E   string `json:"e"`
		Pos int    `json:"pos"`
	}
	json.Unmarshal([]byte(rej.Text), &ev)
	disturbed := strings.Contains(core.SegTrace(rej.Seg), `"e":"disturb"`)
	ctx := "no crash or failure"
	if disturbed {
		ctx = "with crashes / failing store operations"
	}
	switch ev.E {
	case "deliver":
		return "delivery-once-in-order", ctx
	case "save":
		if ev.Pos == 0 {
			return "saved-offset-monotone", "saved offset reset to the beginning, " + ctx
		}
		return "saved-offset-monotone", ctx
	case "quiet":
		return "no-loss", ctx
	}
	return "resume-" + ev.E, ctx
}

func c12Runs(r *core.Run, name string, n, steps int, faults bool, salt uint64, kinds []string) {
	rnd := rand.New(rand.NewPCG(uint64(r.Seed), salt))
	for _, kind := range kinds {
		var segs []core.Segment
		for i := 0; i < n; i++ {
			lines, desc, err := resumeScenario(rnd, kind, r.Work, steps/2+rnd.IntN(steps), faults)
			if err != nil {
				r.Infra("%v", err)
				return
			}
			segs = append(segs, core.Segment{Label: fmt.Sprintf("%s-%s-%d", name, kind, i), Lines: lines, Meta: desc})
			r.Case(fmt.Sprintf("%s/%s/%s", name, kind, desc))
		}
		if len(segs) > 0 {
			r.Sample(map[string]any{"store": kind, "history": segs[0].Meta, "trace_head": strings.Join(strings.SplitN(core.SegTrace(segs[0]), "\n", 12)[:11], " ")})
		}
		if name == "c12-calm" && kind == "memory" {
			segSelfTest(r, "resume", "ResumeTrace", "", segs, []core.Corruption{
				{"an event delivered twice in one run", core.DupFirst(`"e":"deliver"`)},
				{"the last event never reached its live subscription", func(lines [][]byte) [][]byte {
					for i := len(lines) - 1; i >= 0; i-- {
						if bytes.Contains(lines[i], []byte(`"e":"deliver"`)) {
							out := append([][]byte{}, lines[:i]...)
							return append(out, lines[i+1:]...)
						}
					}
					return nil
				}},
			})
		}
		k := kind
		r.ValidateSegments(name+"-"+kind, "ResumeTrace", "", segs, func(rej core.SegReject) *core.Segment {
			clause, scen := classifyResume(rej, k, faults)
			art, _ := json.MarshalIndent(map[string]any{"store": k, "history": rej.Seg.Meta, "first_unexplained_line": rej.Line, "event": json.RawMessage(rej.Text),
				"before": rej.Prev, "trace": core.SegTrace(rej.Seg), "spec": "ResumeTrace"}, "", " ")
			p := r.SaveReplay(rej.Seg.Label+".json", art)
			r.Violate(core.Violation{Clause: clause, Scenario: scen, Replay: p,
				Detail: fmt.Sprintf("history on the real bus and %s store (%s) is not accepted by ResumeTrace.tla at line %d: %s (before: %s)", k, rej.Seg.Meta, rej.Line, rej.Text, strings.Join(rej.Prev, " "))})
			return nil
		})
	}
}

// probeGap: an event is published while SubscribeWithReplay is running (from the moment its replay saves the
// first offset).  Listed finding D11: the event is neither replayed nor delivered live.
func probeGap(r *core.Run, kind string) {
	w, closeEnv, err := newResumeWorld(kind, r.Work)
	if err != nil {
		r.Infra("%v", err)
		return
	}
	defer closeEnv()
	w.publish("A")
	w.publish("A")
	fired := false
	w.store.gate = func(k string) {
		if k == "save" && !fired {
			fired = true
			w.nextEv++
			id := w.nextEv
			done := make(chan struct{})
			go func() { defer close(done); eb.Publish(w.bus, RA{ID: id}) }()
			<-done
		}
	}
	w.subscribe("s1")
	w.store.gate = nil
	w.publish("A")
	w.emit(map[string]any{"e": "quiet"})
	seg := core.Segment{Label: "c12-probe-gap-" + kind, Lines: w.lines, Meta: "pubA pubA sub-s1[publish A during the replay] pubA"}
	r.Case(seg.Label)
	r.ValidateSegments(seg.Label, "ResumeTrace", "", []core.Segment{seg}, func(rej core.SegReject) *core.Segment {
		clause, _ := classifyResume(rej, kind, false)
		art, _ := json.MarshalIndent(map[string]any{"store": kind, "history": rej.Seg.Meta, "first_unexplained_line": rej.Line, "event": json.RawMessage(rej.Text),
			"trace": core.SegTrace(rej.Seg), "spec": "ResumeTrace"}, "", " ")
		p := r.SaveReplay(rej.Seg.Label+".json", art)
		r.Violate(core.Violation{Clause: clause, Scenario: "event published while SubscribeWithReplay is running", Replay: p,
			Detail: fmt.Sprintf("history (%s) on %s is not accepted by ResumeTrace.tla at line %d: %s", rej.Seg.Meta, kind, rej.Line, rej.Text)})
		return nil
	})
}

// probeDurable: resumable subscription over the durable-streams store (subscription offsets in a memory store).
func probeDurable(r *core.Run) {
	w, closeEnv, err := newResumeWorld("durable", r.Work)
	if err != nil {
		r.Infra("%v", err)
		return
	}
	defer closeEnv()
	for i := 0; i < 3; i++ {
		w.publish("A")
	}
	w.subscribe("s1")
	w.restart()
	w.publish("A")
	w.publish("A")
	w.subscribe("s1")
	w.publish("A")
	w.emit(map[string]any{"e": "quiet"})
	seg := core.Segment{Label: "c12-probe-durable", Lines: w.lines, Meta: "pubA x3 sub-s1 restart pubA pubA sub-s1 pubA"}
	r.Case(seg.Label)
	r.ValidateSegments(seg.Label, "ResumeTrace", "", []core.Segment{seg}, func(rej core.SegReject) *core.Segment {
		art, _ := json.MarshalIndent(map[string]any{"store": "durable", "history": rej.Seg.Meta, "first_unexplained_line": rej.Line, "event": json.RawMessage(rej.Text),
			"trace": core.SegTrace(rej.Seg), "spec": "ResumeTrace"}, "", " ")
		p := r.SaveReplay(rej.Seg.Label+".json", art)
		r.Violate(core.Violation{Clause: "resume-on-durable-streams", Scenario: "durable-streams store: replay saves synthesised per-event offsets", Replay: p,
			Detail: fmt.Sprintf("history (%s) on the durable-streams store is not accepted by ResumeTrace.tla at line %d: %s", rej.Seg.Meta, rej.Line, rej.Text)})
		return nil
	})
}

// C12: a resumable subscription sees each event of its type once across restarts.
func c12(r *core.Run) {
	r.Rule = "random histories of publishes of two event types, SubscribeWithReplay of three subscription ids, restarts (a new bus on the same stores), crashes after an arbitrary store operation (runtime.Goexit in the store wrapper) and one-shot failures of Append / SaveOffset / LoadOffset / Read, on the real bus over memory and SQLite stores; every store operation (with the log position its offset denotes) and every delivery is recorded and validated against ResumeTrace.tla (in order, once per run, redelivery only of unsaved positions, saved offset monotone, nothing missing once the subscription is live); a case is one history"
	r.MustHold(core.TLCOpts{Module: "Resume", Timeout: 20 * time.Minute})
	kinds := []string{"memory", "sqlite-file", "memory-paged"}
	c12Runs(r, "c12-calm", r.Pick(150, 2500), 24, false, 1201, kinds)
	c12Runs(r, "c12-faults", r.Pick(250, 4000), 30, true, 1202, kinds)
	r.MustFail(core.TLCOpts{Module: "Resume", Config: "Resume_asis_gap.cfg"}, "NoLoss")
	r.MustFail(core.TLCOpts{Module: "Resume", Config: "Resume_mut_buslast.cfg"}, "SavedMonotone")
	probeGap(r, "memory")
	probeGap(r, "sqlite-file")
	probeDurable(r)
}
