package checks

import (
	"context"
	"encoding/json"
	"fmt"
	"sync"
	"sync/atomic"
	"time"

	eb "github.com/jilio/ebu"
	"github.com/jilio/ebu/state"

	"verif/harness/core"
)

func init() { registry["C15"] = c15 }

type NPlain struct {
	ID int `json:"id"`
}
type NVal struct {
	ID int `json:"id"`
}

func (NVal) EventTypeName() string { return "names.val.v1" }

type NPtr struct {
	ID int `json:"id"`
}

func (*NPtr) EventTypeName() string { return "names.ptr.v1" }

type NOld struct {
	Legacy int `json:"legacy"`
}
type NNew struct {
	Fresh int `json:"fresh"`
}

func shapeCase[T any](shape string, mk func(id int) T) map[string]any {
	ctx := context.Background()
	store := eb.NewMemoryStore()
	bus := eb.New(eb.WithStore(store))
	eb.Publish(bus, mk(1))
	evs, _, _ := store.Read(ctx, eb.OffsetOldest, 0)
	stored := "<nothing persisted>"
	if len(evs) == 1 {
		stored = evs[0].Type
	}
	out := map[string]any{"e": "shape", "shape": shape, "evtype": eb.EventType(mk(1)), "stored": stored}
	// typed replay subscription
	bus2 := eb.New(eb.WithStore(store))
	count := 0
	if err := eb.SubscribeWithReplay(ctx, bus2, "s", func(T) { count++ }); err != nil {
		count = -1
	}
	out["replayed"] = count
	// typed upcaster with T as source
	bus3 := eb.New(eb.WithStore(store))
	upsrc := false
	if err := eb.RegisterUpcast(bus3, func(T) NNew { return NNew{Fresh: 5} }); err == nil {
		bus3.ReplayWithUpcast(ctx, eb.OffsetOldest, func(se *eb.StoredEvent) error {
			if se.Type == eb.EventType(NNew{}) {
				upsrc = true
			}
			return nil
		})
	}
	out["upsrc"] = upsrc
	// typed upcaster with T as target, consumed by a typed replay subscription of T
	store2 := eb.NewMemoryStore()
	data, _ := json.Marshal(NOld{Legacy: 3})
	store2.Append(ctx, &eb.Event{Type: eb.EventType(NOld{}), Data: data, Timestamp: time.Now()})
	bus4 := eb.New(eb.WithStore(store2))
	got := 0
	if err := eb.RegisterUpcast(bus4, func(NOld) T { return mk(7) }); err == nil {
		eb.SubscribeWithReplay(ctx, bus4, "t", func(T) { got++ })
	}
	out["uptgt"] = got == 1
	return out
}

// concurrentShape publishes n events of one shape (ids base+1..base+n) from its own goroutine.
type shapeRun struct {
	name    string
	base    int
	evtype  string
	publish func(bus *eb.EventBus, id int)
	replay  func(store eb.EventStore) int
}

func mkShapeRun[T any](name string, base int, mk func(id int) T) shapeRun {
	return shapeRun{name: name, base: base, evtype: eb.EventType(mk(1)),
		publish: func(bus *eb.EventBus, id int) { eb.Publish(bus, mk(id)) },
		replay: func(store eb.EventStore) int {
			var n atomic.Int64
			b := eb.New(eb.WithStore(store))
			if err := eb.SubscribeWithReplay(context.Background(), b, "c-"+name, func(T) { n.Add(1) }); err != nil {
				return -1
			}
			return int(n.Load())
		}}
}

// concurrentShapes: all shapes published at the same time on one persistent bus.
func concurrentShapes(per int) []map[string]any {
	store := eb.NewMemoryStore()
	bus := eb.New(eb.WithStore(store))
	runs := []shapeRun{
		mkShapeRun("plain struct by value", 0, func(id int) NPlain { return NPlain{ID: id} }),
		mkShapeRun("plain struct by pointer", 100000, func(id int) *NPlain { return &NPlain{ID: id} }),
		mkShapeRun("EventTypeName on value receiver, by value", 200000, func(id int) NVal { return NVal{ID: id} }),
		mkShapeRun("EventTypeName on pointer receiver, by value", 300000, func(id int) NPtr { return NPtr{ID: id} }),
		mkShapeRun("EventTypeName on pointer receiver, by pointer", 400000, func(id int) *NPtr { return &NPtr{ID: id} }),
	}
	var wg sync.WaitGroup
	start := make(chan struct{})
	for _, sr := range runs {
		wg.Add(1)
		go func(sr shapeRun) {
			defer wg.Done()
			<-start
			for i := 1; i <= per; i++ {
				sr.publish(bus, sr.base+i)
			}
		}(sr)
	}
	close(start)
	wg.Wait()
	evs, _, _ := store.Read(context.Background(), eb.OffsetOldest, 0)
	var out []map[string]any
	for _, sr := range runs {
		stored, foreign := 0, 0
		for _, e := range evs {
			var d struct {
				ID int `json:"id"`
			}
			json.Unmarshal(e.Data, &d)
			mine := d.ID > sr.base && d.ID <= sr.base+per
			switch {
			case e.Type == sr.evtype && mine:
				stored++
			case e.Type == sr.evtype: // the shapes' names are pairwise different
				foreign++
			}
		}
		out = append(out, map[string]any{"e": "concurrent", "shape": "concurrent publishers: " + sr.name, "evtype": sr.evtype,
			"published": per, "stored": stored, "foreign": foreign, "replayed": sr.replay(store)})
	}
	return out
}

// C15: one type name per event type, everywhere.
func c15(r *core.Run) {
	r.Rule = "TLC evaluation of Names.tla over the full cross product shape (published by value / by pointer x no EventTypeName / on the value receiver / on the pointer receiver) x route (persist, SubscribeWithReplay[T], RegisterUpcast source and target), with the pre-fix variant as mutant; the same cross product plus the state package's messages exercised on the real bus (publish + persist, stored type vs EventType, typed replay subscription, typed upcasters from and to the type) and validated against NamesTrace.tla; all shapes published at the same time from separate goroutines on one persistent bus (every record under its own event's name with its own data, typed replay delivers exactly them); a case is one shape"
	r.Exhaustive = true
	r.MustHold(core.TLCOpts{Module: "Names", Timeout: 5 * time.Minute})
	r.MustFail(core.TLCOpts{Module: "Names", Config: "Names_asis.cfg"}, "OneName")
	chg, _ := state.Insert("k1", NPlain{ID: 1})
	cases := []map[string]any{
		shapeCase("plain struct by value", func(id int) NPlain { return NPlain{ID: id} }),
		shapeCase("plain struct by pointer", func(id int) *NPlain { return &NPlain{ID: id} }),
		shapeCase("EventTypeName on value receiver, by value", func(id int) NVal { return NVal{ID: id} }),
		shapeCase("EventTypeName on value receiver, by pointer", func(id int) *NVal { return &NVal{ID: id} }),
		shapeCase("EventTypeName on pointer receiver, by value", func(id int) NPtr { return NPtr{ID: id} }),
		shapeCase("EventTypeName on pointer receiver, by pointer", func(id int) *NPtr { return &NPtr{ID: id} }),
		shapeCase("state.ChangeMessage by value", func(id int) state.ChangeMessage { return *chg }),
		shapeCase("state.ChangeMessage by pointer (as the helpers return it)", func(id int) *state.ChangeMessage { return chg }),
		shapeCase("state.ControlMessage by value", func(id int) state.ControlMessage { return *state.Reset("") }),
		shapeCase("state.ControlMessage by pointer", func(id int) *state.ControlMessage { return state.Reset("") }),
	}
	for round := 0; round < r.Pick(6, 600); round++ {
		cases = append(cases, concurrentShapes(150+50*(round%4))...)
	}
	var segs []core.Segment
	for _, c := range cases {
		b, _ := json.Marshal(c)
		segs = append(segs, core.Segment{Label: c["shape"].(string), Lines: [][]byte{b}, Meta: c})
		r.Case(c["shape"].(string))
		r.Sample(c)
	}
	if len(segs) > 0 {
		r.BindingSelfTest("names", "NamesTrace", "", [][]byte{segs[0].Lines[0], segs[len(segs)-1].Lines[0]}, []core.Corruption{
			{"stored under another name than EventType reports", core.ReplaceFirst(`"e":"shape"`, `"stored":"`, `"stored":"x`)},
			{"typed replay delivered nothing", core.ReplaceFirst(`"e":"shape"`, `"replayed":1`, `"replayed":0`)},
			{"a concurrent publisher's record carries another event's data", core.ReplaceFirst(`"e":"concurrent"`, `"foreign":0`, `"foreign":1`)},
		})
	}
	r.ValidateSegments("c15", "NamesTrace", "", segs, func(rej core.SegReject) *core.Segment {
		c := rej.Seg.Meta.(map[string]any)
		art, _ := json.MarshalIndent(map[string]any{"shape": c, "trace": core.SegTrace(rej.Seg), "spec": "NamesTrace"}, "", " ")
		p := r.SaveReplay(fmt.Sprintf("c15-%d.json", len(rej.Seg.Label)), art)
		r.Violate(core.Violation{Clause: "one-name-per-type", Scenario: rej.Seg.Label, Replay: p,
			Detail: fmt.Sprintf("event shape %q: EventType reports %v, stored as %v, typed replay delivered %v, typed upcaster from it applied: %v, typed upcaster to it matched: %v",
				rej.Seg.Label, c["evtype"], c["stored"], c["replayed"], c["upsrc"], c["uptgt"])})
		return nil
	})
}
