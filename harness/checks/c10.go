package checks

import (
	"bytes"
	"encoding/json"
	"fmt"
	"math/rand/v2"
	"regexp"
	"strings"
	"time"

	"verif/harness/core"
	"verif/harness/storedrv"
)

func init() { registry["C10"] = c10 }

// classifyLog names clause and scenario class of a rejected store trace.
func classifyLog(kind string, rej core.SegReject) (string, string) {
	var ev struct {
		E     string `json:"e"`
		Op    string `json:"op"`
		Gt    *bool  `json:"gt"`
		Ok    *bool  `json:"ok"`
		Why   string `json:"why"`
		Limit int    `json:"limit"`
		From  string `json:"from"`
		Tok   string `json:"tok"`
		Msg   string `json:"msg"`
	}
	json.Unmarshal([]byte(rej.Text), &ev)
	base := kind
	if strings.HasPrefix(kind, "sqlite") {
		base = "sqlite"
	}
	switch {
	case ev.E == "append" && ev.Gt != nil && !*ev.Gt:
		return "lex-order", fmt.Sprintf("%s append offset %q is not greater than the previous ones", base, ev.Tok)
	case ev.E == "error":
		return "store-error", fmt.Sprintf("%s %s returns an error on valid input", base, ev.Op)
	case (ev.E == "read" || ev.E == "stream") && ev.Ok != nil && !*ev.Ok:
		what := "payload"
		if strings.Contains(ev.Why, "timestamp") {
			what = "timestamp"
		} else if strings.Contains(ev.Why, "type") {
			what = "type"
		}
		return "fidelity", fmt.Sprintf("%s %s comes back changed", base, what)
	case ev.E == "read" && base == "durable":
		switch {
		case ev.Limit > 0:
			return "read-sequence", "durable Read with a limit (truncates to the limit, returns the chunk end as next offset, synthetic event offsets)"
		case strings.Contains(ev.From, "/"):
			return "read-sequence", "durable Read resumed from a synthesised per-event offset"
		case strings.Contains(rej.Text, "/"):
			return "read-sequence", "durable per-event offsets are synthesised per response and do not denote stable positions"
		}
		return "read-sequence", "durable unlimited Read from a next offset"
	case ev.E == "read":
		lim := "unlimited"
		if ev.Limit > 0 {
			lim = "limited"
		}
		fromKind := "oldest"
		if ev.From != "" {
			fromKind = "token"
			if strings.Contains(ev.From, "/") {
				fromKind = "event-token"
			}
		}
		return "read-sequence", fmt.Sprintf("%s %s read from %s", base, lim, fromKind)
	case ev.E == "stream":
		return "stream-sequence", base
	case ev.E == "load":
		return "saved-offset", base
	}
	return "unexplained-" + ev.E, base
}

func c10Run(r *core.Run, kind string, n int, o storedrv.Opts, name string, salt uint64) {
	c10RunCfg(r, kind, n, o, name, salt, "")
}

func c10RunCfg(r *core.Run, kind string, n int, o storedrv.Opts, name string, salt uint64, cfgOverride string) {
	rnd := rand.New(rand.NewPCG(uint64(r.Seed), salt))
	var segs []core.Segment
	nextID := 1
	partial := false
	for i := 0; i < n; i++ {
		env, err := storedrv.NewEnv(kind, r.Work, 2, 300+rnd.IntN(900))
		if err != nil {
			r.Infra("cannot create %s stores: %v", kind, err)
			return
		}
		partial = env.Partial
		d := storedrv.NewDriver(env, rnd, nextID)
		oo := o
		oo.Ops = o.Ops/2 + rnd.IntN(o.Ops)
		d.RunRandomGuarded(oo, 30*time.Second)
		nextID = d.NextID()
		env.Close()
		segs = append(segs, core.Segment{Label: fmt.Sprintf("%s-%d", kind, i), Lines: d.Lines()})
		r.Case(fmt.Sprintf("%s/%s/%d/%d", name, kind, r.Seed, i))
	}
	if len(segs) > 0 && len(segs[0].Lines) > 3 {
		r.Sample(map[string]any{"store": kind, "first_lines": []string{string(segs[0].Lines[1]), string(segs[0].Lines[2]), string(segs[0].Lines[3])}})
	}
	if name == "c10" && kind == "memory" {
		segSelfTest(r, "log", "LogTrace", "LogTrace_Exact.cfg", segs, []core.Corruption{
			{"an acknowledged append is missing from the log", core.DropFirst(`"e":"append"`)},
			{"one event appended twice", core.DupFirst(`"e":"append"`)},
			{"a read returned an altered payload", core.ReplaceFirst(`"e":"read"`, `"ok":true`, `"ok":false`)},
			{"a read skipped its first event", func(lines [][]byte) [][]byte {
				re := regexp.MustCompile(`"evs":\[\{[^}]*\},`)
				for i, l := range lines {
					if bytes.Contains(l, []byte(`"e":"read"`)) && re.Match(l) {
						out := append([][]byte{}, lines...)
						out[i] = re.ReplaceAll(l, []byte(`"evs":[`))
						return out
					}
				}
				return nil
			}},
		})
	}
	cfg := "LogTrace_Exact.cfg"
	if partial {
		cfg = "LogTrace_Partial.cfg"
	}
	if cfgOverride != "" {
		cfg = cfgOverride
	}
	r.ValidateSegments(name+"-"+kind, "LogTrace", cfg, segs, func(rej core.SegReject) *core.Segment {
		clause, scen := classifyLog(kind, rej)
		art, _ := json.MarshalIndent(map[string]any{"store": kind, "first_unexplained_line": rej.Line, "event": json.RawMessage(rej.Text),
			"before": rej.Prev, "trace": core.SegTrace(rej.Seg), "spec": "LogTrace", "config": cfg}, "", " ")
		p := r.SaveReplay(fmt.Sprintf("%s-%s-rejected.json", name, rej.Seg.Label), art)
		r.Violate(core.Violation{Clause: clause, Scenario: scen, Replay: p,
			Detail: fmt.Sprintf("store calls recorded from the real %s store are not a behaviour of Log.tla: line %d cannot be explained: %s\n(before: %s)",
				kind, rej.Line, rej.Text, strings.Join(rej.Prev, " "))})
		if clause == "lex-order" && r.IsKnown(core.Violation{Clause: clause, Scenario: scen}) {
			// listed finding (SQLite decimal offsets): patch the flag so that the rest of the run is still checked
			// (and the same step in the runs not yet validated: the finding has been reproduced and reported)
			var ev struct{ Tok string }
			json.Unmarshal([]byte(rej.Text), &ev)
			needle := fmt.Sprintf(`"tok":%q`, ev.Tok)
			for i := range segs {
				for j, l := range segs[i].Lines {
					if strings.Contains(string(l), `"gt":false`) && strings.Contains(string(l), needle) {
						segs[i].Lines[j] = []byte(strings.Replace(string(l), `"gt":false`, `"gt":true`, 1))
					}
				}
			}
			seg := rej.Seg
			return &seg
		}
		return nil
	})
}

// C10: every bundled store behaves as one append-only, resumable log.
func c10(r *core.Run) {
	r.Rule = "exhaustive TLC run of MCLog (every store satisfying Log.tla gives a gap-free, repeat-free chain of reads for all limits and resume points: next tokens and event tokens, fresh or reused tokens, partial pages); random call sequences (append with rich type/JSON/timestamp inputs, read with limits -1..5, streaming reads, save/load offsets, resuming from every token handed out, one call in twelve made with a cancelled context - it works or fails without effect, and a refused SaveOffset is retried -, two separately created stores per run) against the real memory, SQLite (file, :memory:, batched streams) and durable-streams stores, recorded and validated against LogTrace.tla; a case is one (store kind, sequence)"
	r.MustHold(core.TLCOpts{Module: "MCLog", Timeout: 10 * time.Minute})
	// the bundled stores written like their code (LogImpl.tla): the memory store satisfies the contract's
	// consequences; the listed findings D5 and D8 are the design-level counterexamples of the other two
	r.MustHold(core.TLCOpts{Module: "LogImpl", Config: "LogImpl_mem.cfg", Timeout: 5 * time.Minute})
	r.MustFail(core.TLCOpts{Module: "LogImpl", Config: "LogImpl_sqlite.cfg"}, "LexIncreasing")
	r.MustFail(core.TLCOpts{Module: "LogImpl", Config: "LogImpl_ds.cfg"}, "NoGapNoRepeat")
	n := r.Pick(40, 600)
	base := storedrv.Opts{Ops: 70, Limits: []int{-1, 0, 1, 2, 3, 5}, EventToks: true, Streams: true, Zones: true, SecondsZone: true, Concurrent: 7, Cancelled: 0.08}
	for i, kind := range storedrv.Kinds {
		o := base
		if kind == "durable" {
			// main durable-streams runs steer around the listed findings (D8): unlimited reads resumed from
			// next offsets, per-event offsets not examined; the probes below keep reporting the findings
			o.Limits, o.EventToks, o.NoHugeNumbers, o.Concurrent, o.ConcurrentAlways = []int{-1, 0}, false, true, 8, true
			c10RunCfg(r, kind, n, o, "c10", 1000+uint64(i), "LogTrace_PartialOpaque.cfg")
			continue
		}
		c10Run(r, kind, n, o, "c10", 1000+uint64(i))
	}
	// probes for the listed durable-streams findings
	p := base
	p.NoHugeNumbers = true
	p.Limits, p.EventToks = []int{-1, 0}, true
	c10RunCfg(r, "durable", r.Pick(6, 40), p, "c10-probe-evtoks", 1100, "LogTrace_Partial.cfg")
	p.Limits, p.EventToks = []int{1, 2, 3}, false
	c10RunCfg(r, "durable", r.Pick(6, 40), p, "c10-probe-limit", 1101, "LogTrace_PartialOpaque.cfg")
}
