package checks

import (
	"math/rand/v2"

	"verif/harness/busdrv"
	"verif/harness/core"
)

// filled in by the persist family
var c20Persist = func(r *core.Run) {}

// c20Otel re-runs bus workloads with the real OpenTelemetry observability in front of the recording one
// (child processes started with VERIF_OTEL=1): the SDK's span recorder and manual metric reader are compared
// with the callbacks recorded in the same run, and the run is validated against BusTrace.tla as usual.
func c20Otel(r *core.Run) {
	rnd := rand.New(rand.NewPCG(uint64(r.Seed), 2021))
	obsOn := allCfgs(func(c busdrv.Cfg) bool { return c.Obs })
	for i := range obsOn {
		if i%2 == 0 {
			obsOn[i].Closer = true // a store: persist spans and counters
		}
	}
	g := busdrv.GenOpts{Procs: 1, OpsPerProc: [2]int{8, 30}, Types: 2, Async: 0.4, Once: 0.25, Seq: 0.3, Filt: 0.15, Panics: 0.35, Body: 0.2, CtxBody: 0.2,
		Kinds: []string{"sub", "sub", "sub", "unsub", "count", "pub", "pub", "pub", "pub", "cancel", "wait"},
		Ctxs:  []string{"c1", "c2"}, Cfgs: obsOn}
	var scripts []busdrv.Script
	for i := 0; i < r.Pick(250, 4000); i++ {
		s := g.Random(rnd)
		scripts = append(scripts, s)
		r.Case("otel/" + scriptKey(s))
	}
	busdrv.ExecAndValidate(r, scripts, busdrv.ExecOpts{Name: "c20-otel", Self: Self(), Seed: uint64(r.Seed), Env: []string{"VERIF_OTEL=1"},
		HangIsViolation: true, HangClause: "calls-return", CrashClause: "no-panic-escapes", Classify: func(s busdrv.Script, rej busdrv.Rejection) (string, string) {
			c, sc := classifyBus(s, rej)
			if c == "unexplained-otel" {
				return "opentelemetry-spans-and-counters", sc
			}
			return c, sc
		}})
}
