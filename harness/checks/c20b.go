package checks

import "verif/harness/core"

// filled in by the persist family and the otel driver
var c20Persist = func(r *core.Run) {}
var c20Otel = func(r *core.Run) {}
