package checks

import (
	"encoding/json"
	"fmt"
	"os"
	"path/filepath"
	"strings"
	"time"

	"verif/harness/busdrv"
	"verif/harness/core"
)

// Replay re-examines a replay artefact: the recorded trace is validated again, and if the artefact
// holds a bus script the script is executed again on the current tree (5 times) and re-validated.
func Replay(path string) int {
	b, err := os.ReadFile(path)
	if err != nil {
		fmt.Fprintln(os.Stderr, err)
		return core.ExitInfra
	}
	var art struct {
		Script *busdrv.Script `json:"script"`
		Trace  string         `json:"trace"`
		Spec   string         `json:"spec"`
	}
	if err := json.Unmarshal(b, &art); err != nil {
		fmt.Fprintln(os.Stderr, "not a replay artefact:", err)
		return core.ExitInfra
	}
	prop := filepath.Base(filepath.Dir(path))
	r := core.NewRun(prop, "quick")
	r.Evidence = false
	if art.Trace != "" && art.Spec != "" {
		tf := filepath.Join(r.Work, "replay.ndjson")
		os.WriteFile(tf, []byte(art.Trace), 0o644)
		n := strings.Count(art.Trace, "\n")
		v, err := r.ValidateTrace(art.Spec, tf, n, 10*time.Minute)
		if err != nil {
			fmt.Println("validation failed to run:", err)
		} else {
			fmt.Printf("recorded trace (%d lines) against %s.tla: accepted=%v, longest explained prefix %d lines\n", n, art.Spec, v.Accepted, v.HighWater)
		}
	}
	if art.Script != nil && (art.Spec == "" || strings.HasPrefix(art.Spec, "BusTrace")) {
		var scripts []busdrv.Script
		for i := 0; i < 5; i++ {
			scripts = append(scripts, *art.Script)
		}
		out := busdrv.ExecAndValidate(r, scripts, busdrv.ExecOpts{Name: "replay", Self: Self(), Seed: 1, HangIsViolation: true,
			HangClause: "calls-return", CrashClause: "no-panic-escapes", Classify: classifyBus})
		fmt.Printf("re-executed the script 5 times on the current tree: %d accepted, %d rejected, %d hangs, %d crashes\n",
			out.Accepted, len(out.Rejected), len(out.Hangs), len(out.Crashes))
	}
	return r.Finish()
}
