package checks

import (
	"time"

	"verif/harness/busdrv"
	"verif/harness/core"
)

func init() { registry["C20"] = c20 }

// C20: observability callbacks are balanced, nested and truthful.
func c20(r *core.Run) {
	r.Rule = "exhaustive TLC runs of MCBus_c05 and MCBus_c08 (observability on and off; the six callbacks are actions of Bus.tla: publish start/complete around the hooks, handler start/complete around every invocation with the error flag of a panic); TLC-generated and random executions of the real bus with a recording Observability whose start callbacks plant tokens in the returned context, validated against BusTrace.tla (one start/complete per publish and per invocation, complete receives the context of its start, handler contexts descend from the publish context, error iff panic); persist callbacks and the OpenTelemetry implementation are checked by c20's persist and otel parts; a case is distinct by its script"
	r.MustHold(core.TLCOpts{Module: "MCBus_c05", Config: "MCBus_c05.cfg", Timeout: 30 * time.Minute})
	r.MustHold(core.TLCOpts{Module: "MCBus_c05", Config: "MCBus_c08.cfg", Timeout: 30 * time.Minute})
	obsOn := allCfgs(func(c busdrv.Cfg) bool { return c.Obs })
	g := busdrv.GenOpts{OpsPerProc: [2]int{8, 30}, Types: 2, Async: 0.4, Once: 0.25, Seq: 0.3, Filt: 0.15, Panics: 0.35, Body: 0.2, CtxBody: 0.2,
		Kinds: []string{"sub", "sub", "sub", "unsub", "count", "pub", "pub", "pub", "pub", "cancel", "wait"},
		Ctxs:  []string{"c1", "c2"}, Cfgs: obsOn}
	seqAndStress(r, "c20", "MCBus_c05", "MCBus_c05_gen.cfg", r.Pick(200, 4000), g, r.Pick(400, 6000), r.Pick(80, 1500), 2020)
	c20Persist(r)
	c20Otel(r)
	// persist callbacks inside the publish pipeline (recording store, failing and timed-out appends), with the recording
	// Observability alone and behind the real OpenTelemetry implementation
	pipeline(r, "c20", false, r.Pick(200, 2500), r.Pick(20, 250), 2022, func(c busdrv.Cfg) bool { return c.Obs }, nil)
	pipeline(r, "c20-otel", false, r.Pick(200, 2500), 0, 2023, func(c busdrv.Cfg) bool { return c.Obs }, []string{"VERIF_OTEL=1"})
}
