package checks

import (
	"bytes"
	"regexp"
	"strconv"
	"time"

	"verif/harness/busdrv"
	"verif/harness/core"
)

// busBindingSelfTest records one fixed execution of the real bus that touches every kind of trace line (registry
// calls, hooks, filter, synchronous / asynchronous / once / panicking handlers, observability, persistence with a
// rejected append, Wait) and checks that BusTrace.tla accepts it and rejects each corruption of it.
func busBindingSelfTest(r *core.Run) {
	s := busdrv.Script{Cfg: busdrv.Cfg{Obs: true, Before: true, AfterCtx: true, PanicH: true, Store: true, PErrH: true}}
	s.Setup = []busdrv.Op{
		{Op: "sub", T: "E00", Fn: "f0", Filt: true, Accept: []string{"a"}},
		{Op: "sub", T: "E00", Fn: "c0", Async: true},
		{Op: "sub", T: "E00", Fn: "f1", Once: true, Panics: true},
	}
	s.Procs = [][]busdrv.Op{{
		{Op: "pub", T: "E00", Val: "a", Ctx: "bg"},
		{Op: "count", T: "E00"},
		{Op: "pub", T: "E00", Val: "b", Ctx: "bg", PFail: "rej"},
		{Op: "unsub", T: "E00", Fn: "f0"},
		{Op: "pub", T: "E00", Val: "a", Ctx: "c1", Dyn: true},
		{Op: "wait"},
	}}
	rec := &busdrv.Recorder{}
	fin, esc := busdrv.RunScript(s, rec, 1, 20*time.Second)
	if !fin || esc != nil {
		r.Infra("binding self-test: the sample script did not finish (%v)", esc)
		return
	}
	reCount := regexp.MustCompile(`"res":(\d+)`)
	r.BindingSelfTest("bus", "BusTrace", "", rec.Lines(), []core.Corruption{
		{"a handler invocation is missing", core.DropFirst(`"e":"enter"`)},
		{"a before hook ran twice", core.DupFirst(`"e":"hookb"`)},
		{"a filter rejected the event and the handler ran all the same", core.ReplaceFirst(`"e":"filter"`, `"res":true`, `"res":false`)},
		{"a publish was not recorded in the store", core.DropFirst(`"e":"append"`)},
		{"the record was written after OnPersistComplete", core.SwapWithNext(`"e":"append"`)},
		{"OnHandlerComplete reports an error for a handler that did not panic", core.ReplaceFirst(`"e":"hdone"`, `"err":false`, `"err":true`)},
		{"the panic handler was not called", core.DropFirst(`"e":"panich"`)},
		{"the persistence error handler was not called", core.DropFirst(`"e":"perrh"`)},
		{"a failed append reported as a success", core.ReplaceFirst(`"e":"append"`, `"res":false`, `"res":true`)},
		{"OnPublishComplete got another context than its start returned", core.ReplaceFirst(`"e":"pdone"`, `"ok":true`, `"ok":false`)},
		{"HandlerCount is off by one", func(lines [][]byte) [][]byte {
			for i, l := range lines {
				if bytes.Contains(l, []byte(`"op":"count"`)) && i+1 < len(lines) {
					m := reCount.FindSubmatch(lines[i+1])
					if m == nil {
						return nil
					}
					n, _ := strconv.Atoi(string(m[1]))
					out := append([][]byte{}, lines...)
					out[i+1] = reCount.ReplaceAll(lines[i+1], []byte(`"res":`+strconv.Itoa(n+1)))
					return out
				}
			}
			return nil
		}},
		{"Publish returned before its synchronous handler", func(lines [][]byte) [][]byte {
			// move the first "pret" line in front of the first "enter" line
			pi, ei := -1, -1
			for i, l := range lines {
				if ei < 0 && bytes.Contains(l, []byte(`"e":"enter"`)) && bytes.Contains(l, []byte(`"ca":false`)) {
					ei = i
				}
				if pi < 0 && bytes.Contains(l, []byte(`"e":"pret"`)) {
					pi = i
				}
			}
			if pi < 0 || ei < 0 || ei > pi {
				return nil
			}
			var out [][]byte
			out = append(out, lines[:ei]...)
			out = append(out, lines[pi])
			out = append(out, lines[ei:pi]...)
			return append(out, lines[pi+1:]...)
		}},
	})
}

func segSelfTest(r *core.Run, name, module, config string, segs []core.Segment, cs []core.Corruption) {
	if len(segs) == 0 {
		return
	}
	// the longest of the first few segments: more kinds of lines to corrupt
	best := 0
	for i := 0; i < len(segs) && i < 40; i++ {
		if len(segs[i].Lines) > len(segs[best].Lines) {
			best = i
		}
	}
	r.BindingSelfTest(name, module, config, segs[best].Lines, cs)
}

// segSelfTestLast uses the longest of the last segments (finite products enumerate the small cases first).
func segSelfTestLast(r *core.Run, name, module, config string, segs []core.Segment, cs []core.Corruption) {
	if len(segs) == 0 {
		return
	}
	best := len(segs) - 1
	for i := len(segs) - 1; i >= 0 && i >= len(segs)-40; i-- {
		if len(segs[i].Lines) > len(segs[best].Lines) {
			best = i
		}
	}
	r.BindingSelfTest(name, module, config, segs[best].Lines, cs)
}
