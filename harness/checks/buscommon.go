package checks

import (
	"crypto/sha1"
	"encoding/hex"
	"encoding/json"

	"verif/harness/busdrv"
)

func scriptKey(s busdrv.Script) string {
	b, _ := json.Marshal(s)
	h := sha1.Sum(b)
	return hex.EncodeToString(h[:8])
}

// classifyBus names the clause a rejected bus trace speaks about from the first unexplained event.
func classifyBus(s busdrv.Script, rej busdrv.Rejection) (string, string) {
	var ev struct {
		E   string          `json:"e"`
		Res json.RawMessage `json:"res"`
	}
	json.Unmarshal(rej.Event, &ev)
	clause := "unexplained-" + ev.E
	switch ev.E {
	case "enter":
		clause = "delivery"
	case "ret":
		clause = "api-result"
	case "pret":
		clause = "publish-incomplete"
	case "filter":
		clause = "filter-evaluation"
	case "hookb", "hooka":
		clause = "hooks"
	case "pstart", "pdone", "hstart", "hdone":
		clause = "observability"
	case "panich":
		clause = "panic-handler"
	case "":
		clause = "trace-ended-early"
	}
	return clause, busScenario(s)
}

func busScenario(s busdrv.Script) string {
	return busdrv.ScenarioOf(s)
}
