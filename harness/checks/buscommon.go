package checks

import (
	"crypto/sha1"
	"encoding/hex"
	"encoding/json"

	"verif/harness/busdrv"
)

// scriptKey identifies a script for the distinct count; a script without any registration or without any publish
// is trivial (empty key: executed and validated, but not counted as a distinct non-trivial case).
func scriptKey(s busdrv.Script) string {
	subs, pubs := 0, 0
	var walk func(ops []busdrv.Op)
	walk = func(ops []busdrv.Op) {
		for _, o := range ops {
			switch o.Op {
			case "sub":
				subs++
				walk(o.Body)
			case "pub":
				pubs++
			}
		}
	}
	walk(s.Setup)
	for _, p := range s.Procs {
		walk(p)
	}
	walk(s.Final)
	if subs == 0 || pubs == 0 {
		return ""
	}
	b, _ := json.Marshal(s)
	h := sha1.Sum(b)
	return hex.EncodeToString(h[:8])
}

// classifyBus names the clause a rejected bus trace speaks about from the first unexplained event.
func classifyBus(s busdrv.Script, rej busdrv.Rejection) (string, string) {
	var ev struct {
		E   string          `json:"e"`
		Res json.RawMessage `json:"res"`
	}
	json.Unmarshal(rej.Event, &ev)
	clause := "unexplained-" + ev.E
	switch ev.E {
	case "enter":
		clause = "delivery"
	case "ret":
		clause = "api-result"
	case "pret":
		clause = "publish-incomplete"
	case "filter":
		clause = "filter-evaluation"
	case "hookb", "hooka":
		clause = "hooks"
	case "pstart", "pdone", "hstart", "hdone":
		clause = "observability"
	case "panich":
		clause = "panic-handler"
	case "append":
		clause = "persist-append"
	case "perss", "persd":
		clause = "observability-persist"
	case "perrh":
		clause = "persist-error-report"
	case "":
		clause = "trace-ended-early"
	}
	return clause, busScenario(s)
}

func busScenario(s busdrv.Script) string {
	return busdrv.ScenarioOf(s)
}
