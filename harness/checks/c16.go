package checks

import (
	"context"
	"encoding/json"
	"errors"
	"fmt"
	"math/rand/v2"
	"reflect"
	"strconv"
	"strings"
	"sync"
	"sync/atomic"
	"time"

	eb "github.com/jilio/ebu"

	"verif/harness/core"
)

func init() {
	registry["C16"] = func(r *core.Run) { upcastCheck(r, "C16") }
	registry["C17"] = func(r *core.Run) { upcastCheck(r, "C17") }
}

type upOp struct {
	Op    string `json:"op"`
	From  string `json:"from,omitempty"`
	To    string `json:"to,omitempty"`
	Nil   bool   `json:"nil,omitempty"`
	Ret   string `json:"ret,omitempty"`
	Fails bool   `json:"fails,omitempty"`
	T     string `json:"t,omitempty"`
}

type upDoc struct {
	Path []int  `json:"path"`
	Seed string `json:"seed"`
}

// upcastScenario runs one op sequence against a fresh bus and returns the recorded trace segment.
func upcastScenario(ops []upOp) (lines [][]byte, hung bool) {
	emit := func(m map[string]any) {
		b, _ := json.Marshal(m)
		lines = append(lines, b)
	}
	store := eb.NewMemoryStore()
	errh := 0
	bus := eb.New(eb.WithStore(store), eb.WithUpcastErrorHandler(func(t string, d json.RawMessage, err error) { errh++ }))
	emit(map[string]any{"e": "new"})
	uid := 0
	for _, o := range ops {
		switch o.Op {
		case "reg":
			uid++
			id := uid
			ret, fails := o.Ret, o.Fails
			var fn eb.UpcastFunc
			if !o.Nil {
				fn = func(data json.RawMessage) (json.RawMessage, string, error) {
					if fails {
						return nil, "", errors.New("upcaster fails")
					}
					var d upDoc
					if err := json.Unmarshal(data, &d); err != nil {
						return nil, "", err
					}
					d.Path = append(d.Path, id)
					out, _ := json.Marshal(d)
					return out, ret, nil
				}
			}
			err := eb.RegisterUpcastFunc(bus, o.From, o.To, fn)
			res := "ok"
			if err != nil {
				res = "err"
			}
			emit(map[string]any{"e": "reg", "from": o.From, "to": o.To, "nil": o.Nil, "uid": id, "ret": ret, "fails": fails, "res": res})
		case "clear":
			bus.ClearUpcasts()
			emit(map[string]any{"e": "clear"})
		case "cleartype":
			bus.ClearUpcastsForType(o.T)
			emit(map[string]any{"e": "cleartype", "t": o.T})
		case "apply":
			// store one event of that type, replay it (only it) with upcasting under a watchdog
			ts := time.Date(2024, 5, 6, 7, 8, 9, 10, time.UTC)
			data, _ := json.Marshal(upDoc{Path: []int{}, Seed: "s"})
			off, _ := store.Append(context.Background(), &eb.Event{Type: o.T, Data: data, Timestamp: ts})
			evs, _, _ := store.Read(context.Background(), eb.OffsetOldest, 0)
			from := eb.OffsetOldest
			if len(evs) > 1 {
				from = evs[len(evs)-2].Offset
			}
			errh = 0
			type result struct {
				se  *eb.StoredEvent
				err error
			}
			ch := make(chan result, 1)
			go func() {
				var got *eb.StoredEvent
				err := bus.ReplayWithUpcast(context.Background(), from, func(se *eb.StoredEvent) error { got = se; return nil })
				ch <- result{got, err}
			}()
			select {
			case res := <-ch:
				ev := map[string]any{"e": "apply", "t": o.T, "hung": false, "out": "", "path": []int{}, "orig": false, "meta": false, "errh": errh}
				if res.se != nil {
					var d upDoc
					json.Unmarshal(res.se.Data, &d)
					if d.Path == nil {
						d.Path = []int{}
					}
					ev["out"], ev["path"] = res.se.Type, d.Path
					ev["orig"] = res.se.Type == o.T && string(res.se.Data) == string(data)
					ev["meta"] = res.se.Offset == off && res.se.Timestamp.Equal(ts) && res.err == nil
				}
				emit(ev)
			case <-time.After(3 * time.Second):
				emit(map[string]any{"e": "apply", "t": o.T, "hung": true, "out": "", "path": []int{}, "orig": false, "meta": false, "errh": errh})
				return lines, true // the registry's read lock is held for ever: nothing more can be done with this bus
			}
		}
	}
	return lines, false
}

func upOpsFromTLC(line string) ([]upOp, error) {
	var inner string
	if err := json.Unmarshal([]byte(line), &inner); err != nil {
		return nil, err
	}
	var ops []upOp
	err := json.Unmarshal([]byte(inner), &ops)
	return ops, err
}

func randomUpOps(rnd *rand.Rand, n int) []upOp {
	names := []string{"A", "B", "C", "D", "E", "F"}
	var ops []upOp
	for i := 0; i < n; i++ {
		switch k := rnd.IntN(12); {
		case k < 7:
			o := upOp{Op: "reg", From: names[rnd.IntN(len(names))], To: names[rnd.IntN(len(names))]}
			o.Ret = o.To
			if rnd.IntN(4) == 0 {
				o.Ret = names[rnd.IntN(len(names))] // a raw upcaster that returns another type than it declared
			}
			o.Fails = rnd.IntN(6) == 0
			if rnd.IntN(15) == 0 {
				o.Nil = true
			}
			if rnd.IntN(20) == 0 {
				o.From = ""
			}
			if rnd.IntN(20) == 0 {
				o.To = ""
			}
			ops = append(ops, o)
		case k < 8:
			ops = append(ops, upOp{Op: "cleartype", T: names[rnd.IntN(len(names))]})
		case k == 8 && rnd.IntN(3) == 0:
			ops = append(ops, upOp{Op: "clear"})
		default:
			ops = append(ops, upOp{Op: "apply", T: names[rnd.IntN(len(names))]})
		}
	}
	return ops
}

func classifyUpcast(rej core.SegReject) (string, string) {
	var ev struct {
		E     string `json:"e"`
		Hung  bool   `json:"hung"`
		Res   string `json:"res"`
		Orig  bool   `json:"orig"`
		Errh  int    `json:"errh"`
	}
	json.Unmarshal([]byte(rej.Text), &ev)
	switch {
	case ev.E == "apply" && ev.Hung:
		return "apply-terminates", "raw upcaster returns a type that was already applied"
	case ev.E == "apply":
		return "chain-or-nothing", "upcast chain result"
	case ev.E == "reg" || ev.E == "regret":
		return "registration-accept-reject", "result " + ev.Res
	}
	return "upcast-" + ev.E, ""
}

func validateUpcast(r *core.Run, name string, segs []core.Segment) {
	r.ValidateSegments(name, "UpcastTrace", "", segs, func(rej core.SegReject) *core.Segment {
		clause, scen := classifyUpcast(rej)
		if m, ok := rej.Seg.Meta.(string); ok && strings.HasPrefix(m, "registrations racing with") {
			scen = m
		}
		art, _ := json.MarshalIndent(map[string]any{"ops": rej.Seg.Meta, "first_unexplained_line": rej.Line, "event": json.RawMessage(rej.Text),
			"before": rej.Prev, "trace": core.SegTrace(rej.Seg), "spec": "UpcastTrace"}, "", " ")
		p := r.SaveReplay(rej.Seg.Label+".json", art)
		r.Violate(core.Violation{Clause: clause, Scenario: scen, Replay: p,
			Detail: fmt.Sprintf("upcast operations on the real bus are not accepted by UpcastTrace.tla at line %d: %s (before: %s)", rej.Line, rej.Text, strings.Join(rej.Prev, " "))})
		return nil
	})
}

// racingRegistrations: two chains P0->..->Pk and Q0->..->Qk, then Pk->Q0 and Qk->P0 registered concurrently
// (plus noise); recorded as regcall/regret with a global order.
func racingRegistrations(rnd *rand.Rand) [][]byte {
	var mu sync.Mutex
	var lines [][]byte
	emit := func(m map[string]any) {
		b, _ := json.Marshal(m)
		mu.Lock()
		lines = append(lines, b)
		mu.Unlock()
	}
	bus := eb.New()
	emit(map[string]any{"e": "new"})
	fn := func(d json.RawMessage) (json.RawMessage, string, error) { return d, "x", nil }
	uid := 0
	k := 1 + rnd.IntN(3)
	reg := func(from, to string) {
		uid++
		err := eb.RegisterUpcastFunc(bus, from, to, fn)
		res := "ok"
		if err != nil {
			res = "err"
		}
		emit(map[string]any{"e": "reg", "from": from, "to": to, "nil": false, "uid": uid, "ret": to, "fails": false, "res": res})
	}
	for i := 0; i < k; i++ {
		reg("P"+strconv.Itoa(i), "P"+strconv.Itoa(i+1))
		reg("Q"+strconv.Itoa(i), "Q"+strconv.Itoa(i+1))
	}
	pairs := [][2]string{{"P" + strconv.Itoa(k), "Q0"}, {"Q" + strconv.Itoa(k), "P0"}}
	if rnd.IntN(2) == 0 {
		pairs = append(pairs, [2]string{"Q" + strconv.Itoa(k), "P1"})
	}
	var wg sync.WaitGroup
	start := make(chan struct{})
	for g, p := range pairs {
		wg.Add(1)
		uid++
		id := uid
		go func(g int, from, to string, id int) {
			defer wg.Done()
			<-start
			// the call event is emitted under the same lock that orders the trace, before the call
			emit(map[string]any{"e": "regcall", "g": g + 1, "from": from, "to": to, "uid": id})
			err := eb.RegisterUpcastFunc(bus, from, to, fn)
			res := "ok"
			if err != nil {
				res = "err"
			}
			emit(map[string]any{"e": "regret", "g": g + 1, "res": res})
		}(g, p[0], p[1], id)
	}
	close(start)
	wg.Wait()
	return lines
}

// racingApply: an upcasting replay through a chain P0->..->Pk whose upcasters take a moment, while two other goroutines
// keep registering upcasters between other names (regcall/regret: TLC places their critical sections) and clearing
// names nobody uses.  Upcasting must terminate with the chain's result; nothing may be left blocked.
func racingApply(rnd *rand.Rand) (lines [][]byte) {
	var mu sync.Mutex
	emit := func(m map[string]any) {
		b, _ := json.Marshal(m)
		mu.Lock()
		lines = append(lines, b)
		mu.Unlock()
	}
	store := eb.NewMemoryStore()
	var errh atomic.Int64
	bus := eb.New(eb.WithStore(store), eb.WithUpcastErrorHandler(func(t string, d json.RawMessage, err error) { errh.Add(1) }))
	emit(map[string]any{"e": "new"})
	var uidMu sync.Mutex
	uid := 0
	nextUID := func() int { uidMu.Lock(); defer uidMu.Unlock(); uid++; return uid }
	k := 2 + rnd.IntN(2) // the trace specification knows the names P0..P3
	pause := time.Duration(50+rnd.IntN(400)) * time.Microsecond
	for i := 0; i < k; i++ {
		id := nextUID()
		to := "P" + strconv.Itoa(i+1)
		fn := func(data json.RawMessage) (json.RawMessage, string, error) {
			time.Sleep(pause)
			var d upDoc
			if err := json.Unmarshal(data, &d); err != nil {
				return nil, "", err
			}
			d.Path = append(d.Path, id)
			out, _ := json.Marshal(d)
			return out, to, nil
		}
		res := "ok"
		if err := eb.RegisterUpcastFunc(bus, "P"+strconv.Itoa(i), to, fn); err != nil {
			res = "err"
		}
		emit(map[string]any{"e": "reg", "from": "P" + strconv.Itoa(i), "to": to, "nil": false, "uid": id, "ret": to, "fails": false, "res": res})
	}
	ts := time.Date(2024, 5, 6, 7, 8, 9, 10, time.UTC)
	data, _ := json.Marshal(upDoc{Path: []int{}, Seed: "s"})
	off, _ := store.Append(context.Background(), &eb.Event{Type: "P0", Data: data, Timestamp: ts})
	done := make(chan struct{}, 3)
	stop := make(chan struct{})
	go func() { // the replay
		defer func() { done <- struct{}{} }()
		var got *eb.StoredEvent
		err := bus.ReplayWithUpcast(context.Background(), eb.OffsetOldest, func(se *eb.StoredEvent) error { got = se; return nil })
		ev := map[string]any{"e": "apply", "t": "P0", "hung": false, "out": "", "path": []int{}, "orig": false, "meta": false, "errh": int(errh.Load())}
		if got != nil {
			var d upDoc
			json.Unmarshal(got.Data, &d)
			if d.Path == nil {
				d.Path = []int{}
			}
			ev["out"], ev["path"] = got.Type, d.Path
			ev["orig"] = got.Type == "P0" && string(got.Data) == string(data)
			ev["meta"] = got.Offset == off && got.Timestamp.Equal(ts) && err == nil
		}
		emit(ev)
	}()
	others := []string{"A", "B", "C", "D", "E", "F"}
	noop := func(d json.RawMessage) (json.RawMessage, string, error) { return d, "x", nil }
	for g := 1; g <= 2; g++ {
		seed := rnd.Uint64()
		go func(g int) {
			defer func() { done <- struct{}{} }()
			lr := rand.New(rand.NewPCG(seed, uint64(g)))
			for i := 0; i < 40; i++ {
				select {
				case <-stop:
					return
				default:
				}
				if lr.IntN(4) == 0 {
					t := "Q" + strconv.Itoa(lr.IntN(4))
					bus.ClearUpcastsForType(t)
					emit(map[string]any{"e": "cleartype", "t": t})
					continue
				}
				from, to := others[lr.IntN(len(others))], others[lr.IntN(len(others))]
				emit(map[string]any{"e": "regcall", "g": g, "from": from, "to": to, "uid": nextUID()})
				res := "ok"
				if err := eb.RegisterUpcastFunc(bus, from, to, noop); err != nil {
					res = "err"
				}
				emit(map[string]any{"e": "regret", "g": g, "res": res})
			}
		}(g)
	}
	deadline := time.After(5 * time.Second)
	for n := 0; n < 3; n++ {
		select {
		case <-done:
		case <-deadline:
			close(stop)
			mu.Lock()
			defer mu.Unlock()
			// whatever is still running is blocked inside the registry; cut pending calls off the trace and report the hang
			var cut [][]byte
			for _, l := range lines {
				cut = append(cut, l)
			}
			b, _ := json.Marshal(map[string]any{"e": "apply", "t": "P0", "hung": true, "out": "", "path": []int{}, "orig": false, "meta": false, "errh": 0})
			return append(cut, b)
		}
	}
	return lines
}

// typed upcasters: V1 -> V2 -> V3 with payloads whose JSON omits fields
type TV1 struct {
	ID     int               `json:"id"`
	Coupon string            `json:"coupon,omitempty"`
	Labels map[string]string `json:"labels,omitempty"`
}
type TV2 struct {
	ID     int               `json:"id"`
	Code   string            `json:"code,omitempty"`
	Labels map[string]string `json:"labels,omitempty"`
	N      int               `json:"n"`
}
type TV3 struct {
	Key   string `json:"key"`
	Count int    `json:"count"`
}

func f12(a TV1) TV2 { return TV2{ID: a.ID, Code: a.Coupon, Labels: a.Labels, N: len(a.Labels)} }
func f23(b TV2) TV3 { return TV3{Key: fmt.Sprintf("%d/%s", b.ID, b.Code), Count: b.N + len(b.Labels)} }

// typedChain publishes TV1 values, replays them through RegisterUpcast-typed upcasters and compares every
// result with the JSON of f applied to the decoded stored value, computed independently.
func typedChain(r *core.Run, rnd *rand.Rand, n int) {
	store := eb.NewMemoryStore()
	bus := eb.New(eb.WithStore(store))
	var vals []TV1
	for i := 0; i < n; i++ {
		v := TV1{ID: i}
		if rnd.IntN(2) == 0 {
			v.Coupon = fmt.Sprintf("SAVE%d", rnd.IntN(9))
		}
		if rnd.IntN(2) == 0 {
			v.Labels = map[string]string{}
			for j := 0; j < rnd.IntN(3); j++ {
				v.Labels[fmt.Sprintf("k%d", rnd.IntN(4))] = fmt.Sprintf("v%d", i)
			}
		}
		vals = append(vals, v)
		eb.Publish(bus, v)
	}
	if err := eb.RegisterUpcast(bus, f12); err != nil {
		r.Infra("RegisterUpcast: %v", err)
		return
	}
	if err := eb.RegisterUpcast(bus, f23); err != nil {
		r.Infra("RegisterUpcast: %v", err)
		return
	}
	i := 0
	bad := ""
	bus.ReplayWithUpcast(context.Background(), eb.OffsetOldest, func(se *eb.StoredEvent) error {
		want, _ := json.Marshal(f23(f12(vals[i])))
		wantType := reflect.TypeOf(TV3{}).String()
		if bad == "" && (se.Type != wantType || string(se.Data) != string(want)) {
			bad = fmt.Sprintf("event %d (%+v): got type %s data %s, want type %s data %s", i, vals[i], se.Type, se.Data, wantType, want)
		}
		i++
		return nil
	})
	r.Case(fmt.Sprintf("typed-chain/%d", n))
	if bad != "" || i != n {
		art, _ := json.MarshalIndent(map[string]any{"values": vals, "mismatch": bad, "replayed": i}, "", " ")
		p := r.SaveReplay("typed-chain.json", art)
		r.Violate(core.Violation{Clause: "typed-upcaster-is-f-of-decoded-source", Scenario: "typed chain V1->V2->V3", Replay: p, Detail: bad})
	}
}

func upcastCheck(r *core.Run, prop string) {
	r.Rule = "exhaustive TLC run of MCUpcast (every registry over 3 names with up to 3 edges, every returned-type and failure assignment: the transcribed DFS agrees with reachability, the declared graph stays acyclic, apply terminates); TLC-generated and random sequences of RegisterUpcastFunc (honest, lying and failing raw upcasters, nil function, empty names) / ClearUpcasts / ClearUpcastsForType / ReplayWithUpcast executed on the real bus under a watchdog and validated against UpcastTrace.tla; racing registrations validated with TLC placing the critical sections; registrations and clears racing with an upcasting replay through a slow chain (terminates with the chain's result, nothing left blocked); typed upcaster chains compared with f applied to the decoded source; a case is one operation sequence"
	r.MustHold(core.TLCOpts{Module: "MCUpcast", Config: pickCfg(r, "MCUpcast.cfg", "MCUpcast_thorough.cfg"), Timeout: 30 * time.Minute})
	res, err := r.TLC(core.TLCOpts{Module: "MCUpcast", Config: "MCUpcast_gen.cfg", Workers: 1, HeapMB: 4000, Timeout: 10 * time.Minute,
		Args: []string{"-simulate", "num=" + strconv.Itoa(r.Pick(300, 5000)), "-depth", "12", "-seed", strconv.FormatInt(r.Seed, 10)}})
	var segs []core.Segment
	hangs := 0
	addScenario := func(label string, ops []upOp) {
		if hangs >= 3 {
			return
		}
		lines, hung := upcastScenario(ops)
		if hung {
			hangs++
		}
		segs = append(segs, core.Segment{Label: label, Lines: lines, Meta: ops})
		b, _ := json.Marshal(ops)
		r.Case(string(b))
	}
	if err != nil {
		r.Infra("tlc generation: %v", err)
	} else {
		for i, l := range res.Printed {
			ops, err := upOpsFromTLC(l)
			if err != nil {
				continue
			}
			addScenario(fmt.Sprintf("%s-tlc-%d", strings.ToLower(prop), i), ops)
		}
		r.Logf("TLC generated %d upcast behaviours", len(res.Printed))
	}
	rnd := rand.New(rand.NewPCG(uint64(r.Seed), 1616))
	for i := 0; i < r.Pick(400, 6000); i++ {
		addScenario(fmt.Sprintf("%s-rnd-%d", strings.ToLower(prop), i), randomUpOps(rnd, 6+rnd.IntN(14)))
	}
	if len(segs) > 0 {
		r.Sample(map[string]any{"ops": segs[0].Meta})
	}
	segSelfTest(r, "upcast", "UpcastTrace", "", segs, []core.Corruption{
		{"an accepted registration reported as rejected", core.ReplaceFirst(`"e":"reg"`, `"res":"ok"`, `"res":"err"`)},
		{"an upcasting replay that did not terminate", core.ReplaceFirst(`"e":"apply"`, `"hung":false`, `"hung":true`)},
		{"a rejected registration reported as accepted", core.ReplaceFirst(`"e":"reg"`, `"res":"err"`, `"res":"ok"`)},
	})
	validateUpcast(r, strings.ToLower(prop)+"-seq", segs)
	// racing registrations
	var race []core.Segment
	for i := 0; i < r.Pick(2500, 40000); i++ {
		race = append(race, core.Segment{Label: fmt.Sprintf("%s-race-%d", strings.ToLower(prop), i), Lines: racingRegistrations(rnd), Meta: "racing registrations"})
		r.Case(fmt.Sprintf("race/%d", i))
	}
	validateUpcast(r, strings.ToLower(prop)+"-race", race)
	// registrations and clears racing with a running upcast
	var ra []core.Segment
	hangs = 0
	for i := 0; i < r.Pick(150, 2500); i++ {
		lines := racingApply(rnd)
		ra = append(ra, core.Segment{Label: fmt.Sprintf("%s-raceapply-%d", strings.ToLower(prop), i), Lines: lines, Meta: "registrations racing with an upcasting replay"})
		r.Case(fmt.Sprintf("raceapply/%d", i))
		if strings.Contains(string(lines[len(lines)-1]), `"hung":true`) {
			if hangs++; hangs >= 3 { // each hang costs the watchdog's 5 s: three are enough to report
				break
			}
		}
	}
	validateUpcast(r, strings.ToLower(prop)+"-raceapply", ra)
	if prop == "C17" {
		typedChain(r, rnd, r.Pick(200, 3000))
	}
}
