package checks

import (
	"context"
	"encoding/json"
	"errors"
	"fmt"
	"math/rand/v2"
	"reflect"
	"strings"
	"sync"
	"time"

	eb "github.com/jilio/ebu"

	"verif/harness/busdrv"
	"verif/harness/core"
	"verif/harness/storedrv"
)

func init() {
	registry["C09"] = func(r *core.Run) { persistCheck(r, "C09") }
	registry["C13"] = func(r *core.Run) { persistCheck(r, "C13") }
	c20Persist = func(r *core.Run) { persistRuns(r, "C20", r.Pick(150, 1500), true) }
}

// PEvent is persisted fine; PBad has no JSON encoding.
type PEvent struct {
	P    int    `json:"p"`
	Note string `json:"note"`
}
type PBad struct {
	P int
	C chan int
}
// PBadJSON encodes itself, wrongly: what its MarshalJSON returns is not JSON (json.Marshal reports that as an error).
type PBadJSON struct{ P int }

func (e PBadJSON) MarshalJSON() ([]byte, error) { return []byte(fmt.Sprintf(`{"p":%d,"note":"tr`, e.P)), nil }

// PNamed names its own type, depending on its value (an envelope type).
type PNamed struct {
	P    int    `json:"p"`
	Kind string `json:"kind"`
}

func (e PNamed) EventTypeName() string { return "named." + e.Kind }

type pKey struct{}

type pMeta struct {
	p    int
	kind string
}

// faultStore fails appends according to the publish kind travelling in the context.
type faultStore struct {
	inner eb.EventStore
	emit  func(map[string]any)
	last  string
	n     int
}

func (f *faultStore) Append(ctx context.Context, e *eb.Event) (eb.Offset, error) {
	m, _ := ctx.Value(pKey{}).(pMeta)
	switch m.kind {
	case "apperr":
		f.emit(map[string]any{"e": "append", "p": m.p, "res": "err", "gt": true})
		return "", errors.New("verif: store rejects the append")
	case "timeout":
		<-ctx.Done()
		f.emit(map[string]any{"e": "append", "p": m.p, "res": "timeout", "gt": true})
		return "", ctx.Err()
	}
	off, err := f.inner.Append(ctx, e)
	if err != nil {
		f.emit(map[string]any{"e": "append", "p": m.p, "res": "err:" + err.Error(), "gt": true})
		return off, err
	}
	gt := f.n == 0 || strings.Compare(string(off), f.last) > 0
	if len(string(off)) > len(f.last) { // SQLite's decimal offsets: listed finding of C10, not the subject here
		gt = true
	}
	f.last = string(off)
	f.n++
	f.emit(map[string]any{"e": "append", "p": m.p, "res": "ok", "gt": gt})
	return off, nil
}
func (f *faultStore) Read(ctx context.Context, from eb.Offset, limit int) ([]*eb.StoredEvent, eb.Offset, error) {
	return f.inner.Read(ctx, from, limit)
}
func (f *faultStore) SaveOffset(ctx context.Context, id string, o eb.Offset) error {
	return f.inner.(eb.SubscriptionStore).SaveOffset(ctx, id, o)
}
func (f *faultStore) LoadOffset(ctx context.Context, id string) (eb.Offset, error) {
	return f.inner.(eb.SubscriptionStore).LoadOffset(ctx, id)
}

type pObs struct {
	emit func(map[string]any)
	n    int
}
type pTok struct{}

func (o *pObs) OnPublishStart(ctx context.Context, n string, e any) context.Context { return ctx }
func (o *pObs) OnPublishComplete(ctx context.Context, n string)                       {}
func (o *pObs) OnHandlerStart(ctx context.Context, n string, a bool) context.Context  { return ctx }
func (o *pObs) OnHandlerComplete(ctx context.Context, d time.Duration, err error)     {}
func (o *pObs) OnPersistStart(ctx context.Context, name string, pos int64) context.Context {
	m, _ := ctx.Value(pKey{}).(pMeta)
	o.n++
	o.emit(map[string]any{"e": "pstart", "p": m.p})
	return context.WithValue(ctx, pTok{}, o.n)
}
func (o *pObs) OnPersistComplete(ctx context.Context, d time.Duration, err error) {
	m, _ := ctx.Value(pKey{}).(pMeta)
	tok, _ := ctx.Value(pTok{}).(int)
	o.emit(map[string]any{"e": "pdone", "p": m.p, "err": err != nil, "tokok": tok == o.n})
}

var persistOptNames = []string{"beforeCtx", "before", "errh", "timeout", "obs", "substore", "after"}

// persistCase builds a bus from the option order and runs a publish pattern; it returns the trace segment.
func persistCase(order []string, kinds []string, storeKind, dir string, salt int) ([][]byte, error) {
	var lines [][]byte
	var lmu sync.Mutex
	emit := func(m map[string]any) {
		b, _ := json.Marshal(m)
		lmu.Lock()
		lines = append(lines, b)
		lmu.Unlock()
	}
	has := map[string]bool{}
	for _, o := range order {
		has[o] = true
	}
	var inner eb.EventStore
	var cleanup func()
	if has["store"] {
		env, err := storedrv.NewEnv(storeKind, dir, 1, 1<<20)
		if err != nil {
			return nil, err
		}
		inner, cleanup = env.Stores[0], env.Close
		defer cleanup()
	}
	fs := &faultStore{inner: inner, emit: emit}
	cur := pMeta{}
	var opts []eb.Option
	for _, o := range order {
		switch o {
		case "store":
			opts = append(opts, eb.WithStore(fs))
		case "beforeCtx":
			opts = append(opts, eb.WithBeforePublishContext(func(ctx context.Context, t reflect.Type, e any) {
				emit(map[string]any{"e": "userhook", "p": cur.p})
			}))
		case "before":
			opts = append(opts, eb.WithBeforePublish(func(t reflect.Type, e any) {}))
		case "after":
			opts = append(opts, eb.WithAfterPublishContext(func(ctx context.Context, t reflect.Type, e any) {}))
		case "errh":
			opts = append(opts, eb.WithPersistenceErrorHandler(func(e any, t reflect.Type, err error) {
				ok := t == reflect.TypeOf(e) && err != nil
				switch v := e.(type) {
				case PEvent:
					ok = ok && v.P == cur.p
				case PBad:
					ok = ok && v.P == cur.p
				case PBadJSON:
					ok = ok && v.P == cur.p
				case PNamed:
					ok = ok && v.P == cur.p
				default:
					ok = false
				}
				emit(map[string]any{"e": "errh", "p": cur.p, "ok": ok})
			}))
		case "timeout":
			if storeKind == "memory" {
				opts = append(opts, eb.WithPersistenceTimeout(150*time.Millisecond))
			} else { // a healthy append to SQLite or to the durable-streams server must never run into it
				opts = append(opts, eb.WithPersistenceTimeout(20*time.Second))
			}
		case "obs":
			opts = append(opts, eb.WithObservability(&pObs{emit: emit}))
		case "substore":
			opts = append(opts, eb.WithSubscriptionStore(eb.NewMemoryStore()))
		}
	}
	bus := eb.New(opts...)
	const nh = 3 // two synchronous handlers and one asynchronous per event type
	count := func() (int, bool) { // records in the store, and whether the current publish's record is there and right
		if inner == nil {
			return 0, false
		}
		evs, _, err := inner.Read(context.Background(), eb.OffsetOldest, 0)
		if err != nil {
			return -1, false
		}
		found := false
		for _, e := range evs {
			var doc PEvent
			if json.Unmarshal(e.Data, &doc) == nil && doc.P == cur.p {
				if cur.p%3 == 0 { // published as PNamed: the record carries the name the value gives itself
					want, _ := json.Marshal(PNamed{P: cur.p, Kind: namedKind(cur.p)})
					found = e.Type == "named."+namedKind(cur.p) && string(e.Data) == string(want)
				} else {
					want, _ := json.Marshal(PEvent{P: cur.p, Note: "n"})
					found = e.Type == "checks.PEvent" && string(e.Data) == string(want)
				}
			}
		}
		return len(evs), found
	}
	for i := 0; i < nh-1; i++ {
		eb.Subscribe(bus, func(e PEvent) {
			n, saw := count()
			emit(map[string]any{"e": "handler", "p": e.P, "saw": saw, "n": n})
		})
		eb.Subscribe(bus, func(e PNamed) {
			n, saw := count()
			emit(map[string]any{"e": "handler", "p": e.P, "saw": saw, "n": n})
		})
		eb.Subscribe(bus, func(e PBad) {
			n, saw := count()
			emit(map[string]any{"e": "handler", "p": e.P, "saw": saw, "n": n})
		})
		eb.Subscribe(bus, func(e PBadJSON) {
			n, saw := count()
			emit(map[string]any{"e": "handler", "p": e.P, "saw": saw, "n": n})
		})
	}
	eb.Subscribe(bus, func(e PBadJSON) {
		n, saw := count()
		emit(map[string]any{"e": "handler", "p": e.P, "saw": saw, "n": n})
	}, eb.Async())
	eb.Subscribe(bus, func(e PEvent) {
		n, saw := count()
		emit(map[string]any{"e": "handler", "p": e.P, "saw": saw, "n": n})
	}, eb.Async())
	eb.Subscribe(bus, func(e PNamed) {
		n, saw := count()
		emit(map[string]any{"e": "handler", "p": e.P, "saw": saw, "n": n})
	}, eb.Async())
	eb.Subscribe(bus, func(e PBad) {
		n, saw := count()
		emit(map[string]any{"e": "handler", "p": e.P, "saw": saw, "n": n})
	}, eb.Async())
	emit(map[string]any{"e": "new", "opts": order, "persistent": has["store"], "errh": has["errh"], "obs": has["obs"], "userhook": has["beforeCtx"], "nh": nh})
	for i, k := range kinds {
		cur = pMeta{p: i + 1, kind: k}
		emit(map[string]any{"e": "pub", "p": cur.p, "kind": k})
		// a request-scoped context: cancelled as soon as the publish is over; for some publishes it also has a deadline
		// of its own, later than any persistence timeout
		ctx, cancel := context.WithCancel(context.WithValue(context.Background(), pKey{}, cur))
		if (i+salt)%3 == 0 {
			ctx, cancel = context.WithTimeout(ctx, 4*time.Second)
		}
		if k == "unenc" && (i+salt)%2 == 0 {
			eb.PublishContext(bus, ctx, PBadJSON{P: cur.p})
		} else if k == "unenc" {
			eb.PublishContext(bus, ctx, PBad{P: cur.p, C: make(chan int)})
		} else if cur.p%3 == 0 {
			eb.PublishContext(bus, ctx, PNamed{P: cur.p, Kind: namedKind(cur.p)})
		} else {
			eb.PublishContext(bus, ctx, PEvent{P: cur.p, Note: "n"})
		}
		bus.Wait() // the asynchronous handler of this publish has run when the return is recorded
		cancel()
		n, saw := count()
		emit(map[string]any{"e": "pubret", "p": cur.p, "n": n, "recok": !has["store"] || k != "ok" || saw})
	}
	return lines, nil
}

func namedKind(p int) string { return []string{"created", "shipped", "cancelled"}[(p/3)%3] }

func permutations(xs []string) [][]string {
	if len(xs) <= 1 {
		return [][]string{append([]string{}, xs...)}
	}
	var out [][]string
	for i := range xs {
		rest := append(append([]string{}, xs[:i]...), xs[i+1:]...)
		for _, p := range permutations(rest) {
			out = append(out, append([]string{xs[i]}, p...))
		}
	}
	return out
}

func persistRuns(r *core.Run, name string, nRandom int, obsOnly bool) {
	rnd := rand.New(rand.NewPCG(uint64(r.Seed), 909))
	var orders [][]string
	// every permutation of "store" with up to two other options; random larger ones
	for i := -1; i < len(persistOptNames); i++ {
		for j := i; j < len(persistOptNames); j++ {
			set := []string{"store"}
			if i >= 0 {
				set = append(set, persistOptNames[i])
			}
			if j > i {
				set = append(set, persistOptNames[j])
			}
			orders = append(orders, permutations(set)...)
		}
	}
	for i := 0; i < nRandom; i++ {
		set := []string{"store"}
		for _, o := range persistOptNames {
			if rnd.IntN(2) == 0 && len(set) < 5 {
				set = append(set, o)
			}
		}
		rnd.Shuffle(len(set), func(a, b int) { set[a], set[b] = set[b], set[a] })
		orders = append(orders, set)
	}
	orders = append(orders, []string{"beforeCtx", "errh"}, []string{"obs"}) // buses without a store
	var segs []core.Segment
	hangs := 0
	for i, order := range orders {
		has := map[string]bool{}
		for _, o := range order {
			has[o] = true
		}
		if obsOnly && !has["obs"] {
			continue
		}
		sk := "memory"
		if i%4 == 1 {
			sk = "sqlite-file"
		}
		if i%8 == 3 {
			sk = "durable"
		}
		n := 2 + rnd.IntN(6)
		var kinds []string
		for k := 0; k < n; k++ {
			ks := []string{"ok", "ok", "unenc", "apperr"}
			if has["timeout"] && sk == "memory" { // appends that hang until the persistence timeout: with the memory store only (150 ms)

				ks = append(ks, "timeout")
			}
			kinds = append(kinds, ks[rnd.IntN(len(ks))])
		}
		if i%3 == 0 {
			kinds[0] = []string{"unenc", "apperr"}[rnd.IntN(2)] // failure on the first publish of a fresh bus
		}
		label := fmt.Sprintf("%s opts=%s kinds=%s", sk, strings.Join(order, ","), strings.Join(kinds, ","))
		type res struct {
			lines [][]byte
			err   error
		}
		ch := make(chan res, 1)
		go func() {
			l, e := persistCase(order, kinds, sk, r.Work, i)
			ch <- res{l, e}
		}()
		var lines [][]byte
		var err error
		select {
		case x := <-ch:
			lines, err = x.lines, x.err
		case <-time.After(10 * time.Second):
			art, _ := json.MarshalIndent(map[string]any{"case": label, "goroutines": core.AllStacks()}, "", " ")
			p := r.SaveReplay(fmt.Sprintf("%s-persist-hang-%d.json", name, i), art)
			r.Violate(core.Violation{Clause: "publish-returns", Scenario: "publish blocks after a persistence failure pattern " + hangShape(kinds), Replay: p,
				Detail: "a publish on a persistent bus did not return within 10 s (" + label + ")"})
			hangs++
			if hangs > 2 {
				return
			}
			continue
		}
		if err != nil {
			r.Infra("persist case: %v", err)
			return
		}
		segs = append(segs, core.Segment{Label: label, Lines: lines, Meta: order})
		r.Case(label)
	}
	if len(segs) > 0 {
		r.Sample(map[string]any{"case": segs[len(segs)/3].Label, "trace": core.SegTrace(segs[len(segs)/3])})
	}
	segSelfTest(r, "persist", "PersistTrace", "", segs, []core.Corruption{
		{"a handler did not run", core.DropFirst(`"e":"handler"`)},
		{"the append was attempted twice", core.DupFirst(`"e":"append"`)},
		{"the publish was never handed to the store", core.DropFirst(`"e":"append"`)},
		{"the record was not in the store when the publish returned", core.ReplaceFirst(`"e":"pubret"`, `"recok":true`, `"recok":false`)},
	})
	r.ValidateSegments(name+"-persist", "PersistTrace", "", segs, func(rej core.SegReject) *core.Segment {
		var ev struct {
			E    string `json:"e"`
			Kind string `json:"kind"`
		}
		json.Unmarshal([]byte(rej.Text), &ev)
		order := rej.Seg.Meta.([]string)
		clause := "persist-" + ev.E
		scen := "option order " + optionShape(order)
		art, _ := json.MarshalIndent(map[string]any{"case": rej.Seg.Label, "first_unexplained_line": rej.Line, "event": json.RawMessage(rej.Text),
			"before": rej.Prev, "trace": core.SegTrace(rej.Seg), "spec": "PersistTrace"}, "", " ")
		p := r.SaveReplay(fmt.Sprintf("%s-persist-%d.json", name, len(rej.Seg.Label)*1000+rej.Line), art)
		r.Violate(core.Violation{Clause: clause, Scenario: scen, Replay: p,
			Detail: fmt.Sprintf("publishes on a persistent bus (%s) are not accepted by PersistTrace.tla at line %d: %s (before: %s)", rej.Seg.Label, rej.Line, rej.Text, strings.Join(rej.Prev, " "))})
		return nil
	})
}

func hangShape(kinds []string) string {
	for _, k := range kinds {
		if k != "ok" {
			return "(first failure: " + k + ")"
		}
	}
	return "(no failure)"
}

// optionShape abstracts an option order to what matters for persistence: is the context hook given after the store?
func optionShape(order []string) string {
	si, bi := -1, -1
	for i, o := range order {
		if o == "store" {
			si = i
		}
		if o == "beforeCtx" {
			bi = i
		}
	}
	switch {
	case si < 0:
		return "without store"
	case bi < 0:
		return "store without context hook"
	case bi > si:
		return "WithStore before WithBeforePublishContext"
	}
	return "WithBeforePublishContext before WithStore"
}

// concurrentPersist: publishes from several goroutines must give exactly one record each, with offsets that
// increase along the log; the appends are read back and validated against LogTrace.tla.
func concurrentPersist(r *core.Run, n int) {
	rnd := rand.New(rand.NewPCG(uint64(r.Seed), 910))
	for _, kind := range []string{"memory", "sqlite-file"} {
		var segs []core.Segment
		nextID := 1
		for i := 0; i < n; i++ {
			env, err := storedrv.NewEnv(kind, r.Work, 1, 0)
			if err != nil {
				r.Infra("%v", err)
				return
			}
			d := storedrv.NewDriver(env, rnd, nextID)
			var mu sync.Mutex
			toks := map[int]string{}
			rec := &recStore{inner: env.Stores[0], onAppend: func(id int, tok string) { mu.Lock(); toks[id] = tok; mu.Unlock() }}
			bus := eb.New(eb.WithStore(rec))
			workers, per := 2+rnd.IntN(7), 1+rnd.IntN(8)
			d.ConcurrentVia(0, workers, per, func(id int) (string, error) {
				eb.Publish(bus, CEvent{ID: id, V: "x"})
				mu.Lock()
				defer mu.Unlock()
				tok, ok := toks[id]
				if !ok {
					return "", fmt.Errorf("publish %d was not appended", id)
				}
				return tok, nil
			}, func(id int) (string, []byte) {
				b, _ := json.Marshal(CEvent{ID: id, V: "x"})
				return eb.EventType(CEvent{}), b
			})
			d.Read(0, "", 0)
			d.Read(0, "", 3)
			nextID = d.NextID()
			env.Close()
			segs = append(segs, core.Segment{Label: fmt.Sprintf("%s-conc-%d", kind, i), Lines: d.Lines()})
			r.Case(fmt.Sprintf("conc/%s/%d/%d", kind, r.Seed, i))
		}
		k := kind
		r.ValidateSegments("c09-concurrent-"+kind, "LogTrace", "LogTrace_Exact.cfg", segs, func(rej core.SegReject) *core.Segment {
			clause, scen := classifyLog(k, rej)
			if clause == "lex-order" && strings.HasPrefix(k, "sqlite") && (strings.Contains(rej.Text, `"tok":"10"`) || strings.Contains(rej.Text, `"tok":"100"`)) {
				// SQLite's decimal offsets (listed finding of C10): not the subject of C09; patch and go on
				seg := rej.Seg
				seg.Lines = append([][]byte(nil), seg.Lines...)
				seg.Lines[rej.Line-1] = []byte(strings.Replace(rej.Text, `"gt":false`, `"gt":true`, 1))
				return &seg
			}
			art, _ := json.MarshalIndent(map[string]any{"store": k, "first_unexplained_line": rej.Line, "event": json.RawMessage(rej.Text),
				"before": rej.Prev, "trace": core.SegTrace(rej.Seg), "spec": "LogTrace", "config": "LogTrace_Exact.cfg"}, "", " ")
			p := r.SaveReplay(fmt.Sprintf("c09-concurrent-%s.json", rej.Seg.Label), art)
			r.Violate(core.Violation{Clause: "concurrent-" + clause, Scenario: "concurrent publishers: " + scen, Replay: p,
				Detail: fmt.Sprintf("records of concurrent publishes (%s) are not a behaviour of Log.tla: line %d: %s", rej.Seg.Label, rej.Line, rej.Text)})
			return nil
		})
	}
}

// CEvent is the event type of the concurrent-publisher runs.
type CEvent struct {
	ID int    `json:"id"`
	V  string `json:"v"`
}

type recStore struct {
	inner    eb.EventStore
	onAppend func(id int, tok string)
}

func (s *recStore) Append(ctx context.Context, e *eb.Event) (eb.Offset, error) {
	off, err := s.inner.Append(ctx, e)
	if err == nil {
		var doc CEvent
		if json.Unmarshal(e.Data, &doc) == nil {
			s.onAppend(doc.ID, string(off))
		}
	}
	return off, err
}
func (s *recStore) Read(ctx context.Context, from eb.Offset, limit int) ([]*eb.StoredEvent, eb.Offset, error) {
	return s.inner.Read(ctx, from, limit)
}

func persistCheck(r *core.Run, prop string) {
	r.Rule = "exhaustive TLC run of Persist.tla (all permutations of the option sets, publish kinds ok / unencodable / append error / timeout, invariants RecordedOnce, RecordBeforeDispatch, Contained, ReportedOnce, NoRetry, NothingWritten, LastOffsetOnlySuccess) and its pre-fix mutant (persistence in the hook slot); on the real bus: every permutation of WithStore with up to two other options plus random larger option orders, random fault patterns (failure on the first publish, consecutive failures) on memory and SQLite stores behind a fault-injecting wrapper, handlers reading the store from inside, validated against PersistTrace.tla; concurrent publishers validated against LogTrace.tla; a case is one (store, option order, fault pattern)"
	r.MustHold(core.TLCOpts{Module: "Persist", Timeout: 10 * time.Minute})
	r.MustFail(core.TLCOpts{Module: "Persist", Config: "Persist_mut_hookslot.cfg"}, "")
	persistRuns(r, strings.ToLower(prop), r.Pick(300, 5000), false)
	if prop == "C09" {
		concurrentPersist(r, r.Pick(40, 600))
		busBindingSelfTest(r)
		pipeline(r, "c09", true, r.Pick(250, 3000), r.Pick(40, 500), 991, nil, nil)
	} else {
		pipeline(r, "c13", true, r.Pick(300, 4000), r.Pick(20, 250), 1331, func(c busdrv.Cfg) bool { return c.PErrH || c.PTimeout }, nil)
	}
}
