package checks

import (
	"time"

	"verif/harness/busdrv"
	"verif/harness/core"
)

func init() {
	registry["C06"] = c06
	registry["C07"] = c07
}

// C06: Wait and Shutdown return only after all asynchronous work has finished.
func c06(r *core.Run) {
	r.Rule = "exhaustive TLC run of MCBus_c06 (one driver subscribing/publishing/waiting, one calling Shutdown/cancel; async handlers that publish further async work; store whose Close succeeds or fails - a failing Close is what Shutdown returns -, also a recording store with a persistence timeout) with WaitCovers / CloseOnlyWhenDrained, design mutant addinside (wg.Add inside the goroutine); free-running executions of the real bus (GOMAXPROCS 1/2/4/16) with Wait, Shutdown and cancel at arbitrary points validated against BusTrace.tla (a Wait/Shutdown return or a Close that precedes the end of an outstanding async invocation cannot be explained); a case is distinct by its script"
	r.MustHold(core.TLCOpts{Module: "MCBus_c07", Config: "MCBus_c06.cfg", Timeout: 30 * time.Minute})
	r.MustFail(core.TLCOpts{Module: "MCBus_c07", Config: "MCBus_c06_mut_addinside.cfg"}, "WaitCovers")
	closer := busdrv.Cfg{Closer: true}
	g := busdrv.GenOpts{Procs: 3, OpsPerProc: [2]int{3, 8}, Types: 3, Async: 0.85, Once: 0.15, Seq: 0.2, Filt: 0.1, Body: 0.5, ChainPub: true, Yield: true, Sleep: 3000,
		Kinds: []string{"sub", "sub", "pub", "pub", "pub", "pub", "wait", "wait", "shutdown", "cancel", "count"},
		Ctxs:  []string{"c1", "c2"}, Cfgs: []busdrv.Cfg{closer, closer, plainCfg, {Closer: true, CloseFails: true}, {Closer: true, Store: true, PTimeout: true}}}
	// the plain (non-race) binary: a Wait concurrent with a first async publish is a WaitGroup misuse that the
	// race detector reports; that is C03's subject (data races), here the subject is what Wait covers
	stressWith(r, "c06-stress", g, r.Pick(200, 4000), []int{1, 2, 4, 16}, 606, classifyBus, "wait-returns", Self())
	// Publish; Wait back to back on one goroutine: the goroutine-start race (is the in-flight count raised
	// before the goroutine exists?) shows at GOMAXPROCS=1, where the spawned goroutine cannot run before Wait
	g2 := g
	g2.Procs, g2.OpsPerProc = 2, [2]int{6, 14}
	g2.Kinds = []string{"sub", "pub", "wait", "pub", "wait", "pub", "wait"}
	g2.Yield = false
	stressWith(r, "c06-pubwait", g2, r.Pick(150, 3000), []int{1, 2}, 607, classifyBus, "wait-returns", Self())
}

// C07: Sequential handlers never overlap and process events in publish order.
func c07(r *core.Run) {
	r.Rule = "exhaustive TLC run of MCBus_c07 (two concurrent publishers, Sync+Sequential and Async+Sequential registrations, ticket-ordered mutex) with NoOverlap / SeqFifo, design mutants nomutex and nofifo; free-running executions of the real bus with enter/exit marks inside the handler bodies (race detector on) validated against BusTrace.tla: overlapping bodies of one Sequential registration and an Async+Sequential body that starts after a later publish of the same goroutine was processed cannot be explained; a case is distinct by its script"
	r.MustHold(core.TLCOpts{Module: "MCBus_c07", Config: pickCfg(r, "MCBus_c07.cfg", "MCBus_c07_thorough.cfg"), Timeout: 40 * time.Minute})
	r.MustFail(core.TLCOpts{Module: "MCBus_c07", Config: "MCBus_c07_mut_nomutex.cfg"}, "NoOverlap")
	r.MustFail(core.TLCOpts{Module: "MCBus_c07", Config: "MCBus_c07_mut_nofifo.cfg"}, "SeqFifo")
	g := busdrv.GenOpts{Procs: 3, OpsPerProc: [2]int{4, 8}, Types: 2, Async: 0.5, Once: 0.1, Seq: 0.85, Filt: 0.1, Body: 0.1, Yield: true, Sleep: 300,
		Kinds: []string{"sub", "sub", "pub", "pub", "pub", "pub", "pub", "pub", "count", "cancel"},
		Ctxs:  []string{"c1", "c2"}, Cfgs: []busdrv.Cfg{plainCfg}}
	stress(r, "c07-stress", g, r.Pick(200, 4000), []int{1, 2, 4, 16}, 707, classifyC07, "no-deadlock")
}

func classifyC07(s busdrv.Script, rej busdrv.Rejection) (string, string) {
	c, sc := classifyBus(s, rej)
	return c, sc
}
