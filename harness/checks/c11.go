package checks

import (
	"context"
	"encoding/json"
	"errors"
	"fmt"
	"strings"
	"time"

	eb "github.com/jilio/ebu"

	"verif/harness/core"
	"verif/harness/storedrv"
)

func init() { registry["C11"] = c11 }

type replayStoreKind struct {
	name   string
	env    string // storedrv kind
	paged  bool   // hide the streaming interface
	chunk  int
	known  string // scenario class of a listed finding this kind runs into ("" = none)
}

type rEvent struct {
	ID int `json:"id"`
}

// c11Case runs one Replay and records its trace segment.
func c11Case(store eb.EventStore, ids []int, offs []eb.Offset, start, batch int, fault string, at int) [][]byte {
	var lines [][]byte
	emit := func(m map[string]any) {
		b, _ := json.Marshal(m)
		lines = append(lines, b)
	}
	probe := &storedrv.Probe{Inner: store}
	switch fault {
	case "storeread":
		probe.FailRead = int64(at)
	case "storeelem":
		probe.FailElem = at
	}
	probe.OnFault = func() { emit(map[string]any{"e": "storefault"}) }
	handlers := 0
	bus := eb.New(eb.WithStore(storedrv.WrapProbe(probe)), eb.WithReplayBatchSize(batch))
	eb.Subscribe(bus, func(e rEvent) { handlers++ })
	ctx, cancel := context.WithCancel(context.Background())
	defer cancel()
	if fault == "precancel" {
		cancel()
	}
	from := eb.OffsetOldest
	if start > 0 {
		from = offs[start-1]
	}
	due := append([]int{}, ids[start:]...)
	emit(map[string]any{"e": "start", "due": due, "precancel": fault == "precancel"})
	k := 0
	err := bus.Replay(ctx, from, func(se *eb.StoredEvent) error {
		k++
		var doc rEvent
		doc.ID = -1
		json.Unmarshal(se.Data, &doc)
		f := "none"
		var ret error
		if fault == "cberr" && k == at {
			f, ret = "err", errors.New("callback failed")
		}
		if fault == "cbcancel" && k == at {
			f = "cancel"
			cancel()
		}
		if fault == "nested" && k == at { // a second replay of the same store while this one is in progress
			bus.Replay(context.Background(), eb.OffsetOldest, func(*eb.StoredEvent) error { return nil })
		}
		emit(map[string]any{"e": "cb", "id": doc.ID, "fault": f})
		return ret
	})
	emit(map[string]any{"e": "ret", "nil": err == nil, "appends": probe.Appends.Load(), "handlers": handlers})
	return lines
}

// C11: Replay delivers every event after the offset, or says that it did not.
func c11(r *core.Run) {
	r.Rule = "exhaustive TLC run of Replay.tla (both paths of bus.Replay over a contract-abiding store: every log length <= N, start position, batch size and fault: callback error at k, cancelled before / by the callback at k, store failure at read j / element k); the same finite product executed on the real stores (memory streaming and paged, SQLite streaming / batched 1,2,3,5 / paged, durable-streams) with fault-injecting store wrappers, every run recorded and validated against ReplayTrace.tla; a case is one (store, length, start, batch, fault) combination"
	r.Exhaustive = true
	r.MustHold(core.TLCOpts{Module: "Replay", Timeout: 10 * time.Minute})
	N := r.Pick(5, 9)
	kinds := []replayStoreKind{
		{name: "memory-stream", env: "memory"},
		{name: "memory-paged", env: "memory", paged: true},
		{name: "sqlite-stream", env: "sqlite-file"},
		{name: "sqlite-batch2", env: "sqlite-batch2"},
		{name: "sqlite-batch5", env: "sqlite-batch5"},
		{name: "sqlite-paged", env: "sqlite-file", paged: true},
		{name: "durable", env: "durable", chunk: 100000},
		{name: "durable-smallchunks", env: "durable", chunk: 330},
	}
	for _, k := range kinds {
		var segs []core.Segment
		for n := 0; n <= N; n++ {
			env, err := storedrv.NewEnv(k.env, r.Work, 1, k.chunk)
			if err != nil {
				r.Infra("cannot create %s: %v", k.env, err)
				return
			}
			var ids []int
			var offs []eb.Offset
			for i := 1; i <= n; i++ {
				data, _ := json.Marshal(map[string]any{"id": 100*n + i, "pad": strings.Repeat("x", 40)})
				off, err := env.Stores[0].Append(context.Background(), &eb.Event{Type: "checks.rEvent", Data: data, Timestamp: time.Now()})
				if err != nil {
					r.Infra("append: %v", err)
					return
				}
				ids = append(ids, 100*n+i)
				offs = append(offs, off)
			}
			var store eb.EventStore = env.Stores[0]
			if k.paged {
				store = storedrv.PagedOnly{Inner: store}
			}
			_, streams := store.(eb.EventStoreStreamer)
			starts := []int{0}
			if n > 0 {
				starts = append(starts, n)
			}
			if n > 2 {
				starts = append(starts, 1, n-1)
			}
			if k.env == "durable" {
				starts = []int{0, n} // only Append's own offsets at chunk boundaries are resumable (listed finding D8)
				if k.chunk < 1000 {
					starts = []int{0}
				}
			}
			batches := []int{1, 2, 3, n + 1, 100}
			if streams {
				batches = []int{100}
			}
			if k.name == "durable" {
				batches = []int{n + 1, 100} // a batch smaller than the server chunk hits the listed finding D8
			}
			for _, start := range starts {
				for _, b := range batches {
					type fl struct {
						f  string
						at int
					}
					faults := []fl{{"none", 0}, {"precancel", 0}}
					for at := 1; at <= n-start; at++ {
						faults = append(faults, fl{"cberr", at}, fl{"cbcancel", at})
						if at <= 2 {
							faults = append(faults, fl{"nested", at})
						}
						if streams {
							faults = append(faults, fl{"storeelem", at})
						}
					}
					if !streams {
						for j := 1; j <= (n-start)/b+2 && j <= 4; j++ {
							faults = append(faults, fl{"storeread", j})
						}
					}
					for _, f := range faults {
						lines := c11Case(store, ids, offs, start, b, f.f, f.at)
						label := fmt.Sprintf("%s n=%d start=%d batch=%d fault=%s@%d", k.name, n, start, b, f.f, f.at)
						segs = append(segs, core.Segment{Label: label, Lines: lines, Meta: [5]any{k.name, n, b, f.f, streams}})
						r.Case(label)
					}
				}
			}
			env.Close()
		}
		if len(segs) > 3 {
			r.Sample(map[string]any{"case": segs[len(segs)/2].Label, "trace": core.SegTrace(segs[len(segs)/2])})
		}
		kind := k
		if k.name == "memory-stream" {
			segSelfTestLast(r, "replay", "ReplayTrace", "", segs, []core.Corruption{
				{"the callback saw one event twice", core.DupFirst(`"e":"cb"`)},
				{"the callback saw two events in the wrong order (or after Replay had returned)", core.SwapWithNext(`"e":"cb"`)},
			})
		}
		r.ValidateSegments("c11-"+k.name, "ReplayTrace", "", segs, func(rej core.SegReject) *core.Segment {
			m := rej.Seg.Meta.([5]any)
			var ev struct {
				E   string `json:"e"`
				Nil bool   `json:"nil"`
			}
			json.Unmarshal([]byte(rej.Text), &ev)
			clause := "gap-free-prefix"
			if ev.E == "ret" {
				clause = "nil-only-if-complete-or-error-reported"
			}
			base := kind.name
			if strings.HasPrefix(base, "sqlite-batch") {
				base = "sqlite-batched-stream"
			}
			scen := fmt.Sprintf("%s fault=%s", base, m[3])
			if kind.env == "durable" && m[2].(int) <= m[1].(int) {
				scen = "durable paged replay with a batch smaller than the log (Read truncates inside a server chunk)"
			}
			art, _ := json.MarshalIndent(map[string]any{"case": rej.Seg.Label, "first_unexplained_line": rej.Line, "event": json.RawMessage(rej.Text),
				"before": rej.Prev, "trace": core.SegTrace(rej.Seg), "spec": "ReplayTrace"}, "", " ")
			p := r.SaveReplay(fmt.Sprintf("c11-%s.json", strings.NewReplacer(" ", "_", "=", "", "@", "_").Replace(rej.Seg.Label)), art)
			r.Violate(core.Violation{Clause: clause, Scenario: scen, Replay: p,
				Detail: fmt.Sprintf("Replay on the real store (%s) is not accepted by ReplayTrace.tla at line %d: %s (before: %s)", rej.Seg.Label, rej.Line, rej.Text, strings.Join(rej.Prev, " "))})
			return nil
		})
	}
}
