package main

import (
	_ "github.com/ahimsalabs/durable-streams-go/durablestream"
	_ "github.com/ahimsalabs/durable-streams-go/durablestream/memorystorage"
	_ "github.com/jilio/ebu"
	_ "github.com/jilio/ebu/otel"
	_ "github.com/jilio/ebu/state"
	_ "github.com/jilio/ebu/stores/durablestream"
	_ "github.com/jilio/ebu/stores/sqlite"
	_ "go.opentelemetry.io/otel/sdk/metric"
	_ "go.opentelemetry.io/otel/sdk/trace/tracetest"
	_ "modernc.org/sqlite"
)

func main() {}
