// Command verif is the entry point of the verification machinery: `verif check <Cxx> <tier>`
// runs one property check; the other subcommands are child-process modes of the drivers.
package main

import (
	"fmt"
	"os"

	"verif/harness/busdrv"
	"verif/harness/checks"
	"verif/harness/core"
)

func main() {
	if len(os.Args) < 2 {
		fmt.Fprintln(os.Stderr, "usage: verif check <property> [quick|thorough] | verif busdrive <batch> <out>")
		os.Exit(core.ExitInfra)
	}
	switch os.Args[1] {
	case "check":
		if len(os.Args) < 3 {
			os.Exit(core.ExitInfra)
		}
		tier := ""
		if len(os.Args) > 3 {
			tier = os.Args[3]
		}
		os.Exit(checks.Run(os.Args[2], tier))
	case "replay":
		os.Exit(checks.Replay(os.Args[2]))
	case "busdrive":
		if err := busdrv.RunBatchChild(os.Args[2], os.Args[3]); err != nil {
			fmt.Fprintln(os.Stderr, err)
			os.Exit(core.ExitInfra)
		}
	default:
		if checks.Child(os.Args[1:]) {
			return
		}
		fmt.Fprintln(os.Stderr, "unknown subcommand", os.Args[1])
		os.Exit(core.ExitInfra)
	}
}
