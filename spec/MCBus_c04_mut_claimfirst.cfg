SPECIFICATION MCSpec
CONSTANTS
  Types = {"T1"}
  Procs = {1, 2}
  Fns = {"f0"}
  Vals = {"a", "b"}
  Ctxs = {"c1"}
  Profiles <- c04Profiles
  Cfgs <- noCfg
  TopKinds = {"sub", "pub", "cancel"}
  MaxReg = 2
  MaxPub = 2
  MaxTop = 0
  Mutant = "claimfirst"
INVARIANTS TypeOK AtMostOncePerPublish MustNotDeliver MustDeliver OnceAtMostOnce OnceRetired RegistrySound WaitCovers OnceNotWasted
CHECK_DEADLOCK FALSE
VIEW View
