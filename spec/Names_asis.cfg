SPECIFICATION Spec
CONSTANTS
  TypedRoutesUseReflect = TRUE
INVARIANT OneName
CHECK_DEADLOCK FALSE
