------------------------------- MODULE Persist -------------------------------
(***************************************************************************)
(* Persistence of published events (persist.go): option application in     *)
(* New, the persist step of PublishContext and its failure modes.          *)
(*                                                                         *)
(* New applies its options in the order given.  Persistence is a step of   *)
(* PublishContext of its own, after the before-publish hooks and before    *)
(* the handler snapshot (HookSlot = FALSE).  With HookSlot = TRUE the      *)
(* model is ebu before the fix of defect D3: WithStore installs the        *)
(* persist step by wrapping the context-hook slot, and a later             *)
(* WithBeforePublishContext overwrites the slot.                           *)
(***************************************************************************)
EXTENDS Integers, Sequences, FiniteSets, TLC

CONSTANTS Opts,        \* the options given to New, a set drawn from
                       \* {"store", "beforeCtx", "before", "errh", "timeout", "obs", "substore"}
          Kinds,       \* publish kinds: "ok", "unenc" (no JSON encoding), "apperr" (store rejects), "timeout"
          MaxPub, NHandlers,
          HookSlot     \* TRUE = persistence lives in the beforePublishCtx slot (pre-fix behaviour)

VARIABLES order,       \* the permutation of Opts chosen for New
          applied,     \* how many options have been applied
          slot,        \* the beforePublishCtx slot: sequence of "user" / "persist" steps it runs
          hasStore, hasErrH, hasObs, hasBefore, hasTimeout,
          log,         \* the store: sequence of publish ids
          lastOffset,  \* position of the last successful append (0 = none)
          pc, cur,     \* publish in progress: [p, kind], program counter
          todo,        \* remaining steps of the hook slot / handlers
          npub,
          obsv         \* observations of the current publish: [appends, errh, pstart, pdone, pdoneErr, ran, sawRecord, userHook]

vars == <<order, applied, slot, hasStore, hasErrH, hasObs, hasBefore, hasTimeout, log, lastOffset, pc, cur, todo, npub, obsv>>

Perms(S) == {f \in [1..Cardinality(S) -> S] : \A i, j \in 1..Cardinality(S) : i # j => f[i] # f[j]}
NoObs == [appends |-> 0, errh |-> 0, pstart |-> 0, pdone |-> 0, pdoneErr |-> FALSE, ran |-> 0, sawRecord |-> TRUE, userHook |-> 0]

Init ==
  /\ order \in Perms(Opts) /\ applied = 0 /\ slot = <<>>
  /\ hasStore = FALSE /\ hasErrH = FALSE /\ hasObs = FALSE /\ hasBefore = FALSE /\ hasTimeout = FALSE
  /\ log = <<>> /\ lastOffset = 0 /\ pc = "new" /\ cur = [p |-> 0, kind |-> "ok"] /\ todo = <<>> /\ npub = 0 /\ obsv = NoObs

\* New applies the next option
Apply ==
  /\ pc = "new" /\ applied < Len(order)
  /\ LET o == order[applied + 1] IN
     /\ applied' = applied + 1
     /\ hasStore' = (hasStore \/ o = "store")
     /\ hasErrH' = (hasErrH \/ o = "errh")
     /\ hasObs' = (hasObs \/ o = "obs")
     /\ hasBefore' = (hasBefore \/ o = "before")
     /\ hasTimeout' = (hasTimeout \/ o = "timeout")
     /\ slot' = IF o = "beforeCtx" THEN <<"user">>                         \* assignment
                ELSE IF o = "store" /\ HookSlot THEN Append(slot, "persist") \* chains behind the existing hook
                ELSE slot
  /\ UNCHANGED <<order, log, lastOffset, pc, cur, todo, npub, obsv>>

Ready == /\ pc = "new" /\ applied = Len(order) /\ pc' = "idle"
         /\ UNCHANGED <<order, applied, slot, hasStore, hasErrH, hasObs, hasBefore, hasTimeout, log, lastOffset, cur, todo, npub, obsv>>

Publish ==
  /\ pc = "idle" /\ npub < MaxPub
  /\ \E k \in Kinds :
       /\ cur' = [p |-> npub + 1, kind |-> k]
       /\ npub' = npub + 1
       /\ obsv' = NoObs
       /\ todo' = slot \o (IF ~HookSlot /\ hasStore THEN <<"persist">> ELSE <<>>)
       /\ pc' = "hooks"
  /\ UNCHANGED <<order, applied, slot, hasStore, hasErrH, hasObs, hasBefore, hasTimeout, log, lastOffset>>

\* one step of the context-hook chain (user hook or the persist step)
HookStep ==
  /\ pc = "hooks" /\ todo # <<>>
  /\ todo' = Tail(todo)
  /\ IF Head(todo) = "user"
     THEN /\ obsv' = [obsv EXCEPT !.userHook = @ + 1] /\ UNCHANGED <<log, lastOffset>>
     ELSE \* persistEvent
       IF ~hasStore THEN UNCHANGED <<obsv, log, lastOffset>>
       ELSE IF cur.kind = "unenc"
       THEN /\ obsv' = [obsv EXCEPT !.errh = @ + (IF hasErrH THEN 1 ELSE 0)] /\ UNCHANGED <<log, lastOffset>>
       ELSE IF cur.kind = "ok"
       THEN /\ log' = Append(log, cur.p) /\ lastOffset' = Len(log) + 1
            /\ obsv' = [obsv EXCEPT !.appends = @ + 1, !.pstart = @ + (IF hasObs THEN 1 ELSE 0), !.pdone = @ + (IF hasObs THEN 1 ELSE 0)]
       ELSE /\ UNCHANGED <<log, lastOffset>>      \* the store rejected the append or the timeout expired
            /\ obsv' = [obsv EXCEPT !.appends = @ + 1, !.pstart = @ + (IF hasObs THEN 1 ELSE 0), !.pdone = @ + (IF hasObs THEN 1 ELSE 0),
                                    !.pdoneErr = hasObs, !.errh = @ + (IF hasErrH THEN 1 ELSE 0)]
  /\ UNCHANGED <<order, applied, slot, hasStore, hasErrH, hasObs, hasBefore, hasTimeout, pc, cur, npub>>

Dispatch ==
  /\ pc = "hooks" /\ todo = <<>>
  /\ pc' = "handlers"
  /\ UNCHANGED <<order, applied, slot, hasStore, hasErrH, hasObs, hasBefore, hasTimeout, log, lastOffset, cur, todo, npub, obsv>>

\* a handler runs and looks into the store for the record of its publish
Handler ==
  /\ pc = "handlers" /\ obsv.ran < NHandlers
  /\ obsv' = [obsv EXCEPT !.ran = @ + 1,
                          !.sawRecord = @ /\ (cur.kind = "ok" => \E i \in 1..Len(log) : log[i] = cur.p)]
  /\ UNCHANGED <<order, applied, slot, hasStore, hasErrH, hasObs, hasBefore, hasTimeout, log, lastOffset, pc, cur, todo, npub>>

Return ==
  /\ pc = "handlers" /\ obsv.ran = NHandlers
  /\ pc' = "idle"
  /\ UNCHANGED <<order, applied, slot, hasStore, hasErrH, hasObs, hasBefore, hasTimeout, log, lastOffset, cur, todo, npub, obsv>>

Next == Apply \/ Ready \/ Publish \/ HookStep \/ Dispatch \/ Handler \/ Return
Spec == Init /\ [][Next]_vars

\* ------------------------------------------------------------ properties (evaluated when a publish returns)
Done == pc = "idle" /\ cur.p > 0
Persistent == "store" \in Opts
Count(p) == Cardinality({i \in 1..Len(log) : log[i] = p})
\* C09: every publish on a persistent bus - whatever the option order - is recorded exactly once ...
RecordedOnce == (Done /\ Persistent /\ cur.kind = "ok") => Count(cur.p) = 1 /\ obsv.appends = 1
\* ... before any handler of that publish runs
RecordBeforeDispatch == (pc \in {"handlers", "idle"} /\ Persistent) => obsv.sawRecord
\* C13: failures are contained (all handlers still run), reported exactly once, not retried, nothing written
Contained == Done => obsv.ran = NHandlers
ReportedOnce == (Done /\ Persistent /\ cur.kind # "ok" /\ hasErrH) => obsv.errh = 1
NoRetry == (Done /\ Persistent) => obsv.appends = (IF cur.kind = "unenc" THEN 0 ELSE 1)
NothingWritten == (Done /\ cur.kind # "ok") => Count(cur.p) = 0
LogInPublishOrder == \A i, j \in 1..Len(log) : i < j => log[i] < log[j]
LastOffsetOnlySuccess == lastOffset = Len(log)
\* C20: persist callbacks are balanced and truthful
PersistObsBalanced == (Done /\ Persistent /\ hasObs) =>
   /\ obsv.pstart = obsv.appends /\ obsv.pdone = obsv.appends
   /\ obsv.pdoneErr = (cur.kind \in {"apperr", "timeout"})
UserHookOnce == (Done /\ "beforeCtx" \in Opts) => obsv.userHook = 1
=============================================================================
