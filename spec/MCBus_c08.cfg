SPECIFICATION MCSpec
CONSTANTS
  FifoLock = TRUE
  Types = {"T1"}
  Procs = {1}
  Fns = {"f0"}
  Vals = {"a"}
  Ctxs = {"c1"}
  PubCtxs = {"bg", "c1"}
  Profiles <- c08Profiles
  Cfgs <- c08Cfgs
  TopKinds = {"sub", "pub", "cancel", "wait"}
  Roles <- allRoles
  MaxReg = 2
  MaxPub = 2
  MaxTop = 0
  Mutant = "none"
INVARIANTS TypeOK AtMostOncePerPublish MustNotDeliver MustDeliver OnceAtMostOnce OnceRetired WaitCovers OnceNotWasted
CHECK_DEADLOCK FALSE
VIEW View
