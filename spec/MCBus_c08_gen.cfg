SPECIFICATION MCSpec
CONSTANTS
  FifoLock = TRUE
  Types = {"T1"}
  Procs = {1}
  Fns = {"f0"}
  Vals = {"a"}
  Ctxs = {"c1"}
  PubCtxs = {"bg", "c1"}
  Profiles <- c08Profiles
  Cfgs <- c08Cfgs
  TopKinds = {"sub", "pub", "cancel", "wait"}
  Roles <- allRoles
  MaxReg = 4
  MaxPub = 5
  MaxTop = 9
  Mutant = "none"
INVARIANTS Emit
CHECK_DEADLOCK FALSE
