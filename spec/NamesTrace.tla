------------------------------ MODULE NamesTrace ------------------------------
(* Trace validation for C15: one line per event shape exercised on the real bus: the name EventType reports,
   the stored type name, and whether the typed routes (SubscribeWithReplay[T], RegisterUpcast[T,New],
   RegisterUpcast[Old,T]) matched the persisted event. *)
EXTENDS Integers, Sequences, TLC, Json, IOUtils
Trace == ndJsonDeserialize(IOEnv.TRACE)
VARIABLE l
EventStep(e) ==
  \/ /\ e.e = "shape"
     /\ e.stored = e.evtype              \* persisted under the name EventType reports
     /\ e.replayed = 1                   \* SubscribeWithReplay[T] matches it (exactly once)
     /\ e.upsrc                          \* an upcaster registered with RegisterUpcast[T, New] is applied to it
     /\ e.uptgt                          \* the output of RegisterUpcast[Old, T] is matched by SubscribeWithReplay[T]
  \* several goroutines publish events of different shapes on one persistent bus at the same time; per shape:
  \/ /\ e.e = "concurrent"
     /\ e.stored = e.published           \* every event of the shape is in the log under the name EventType reports, with its own data
     /\ e.foreign = 0                    \* and no other shape's data is stored under that name
     /\ e.replayed = e.published         \* SubscribeWithReplay[T] delivers exactly those
TraceInit == l = 1 /\ TLCSet(1, 1)
TraceNext == l <= Len(Trace) /\ EventStep(Trace[l]) /\ l' = l + 1
TraceSpec == TraceInit /\ [][TraceNext]_l
HighWater ==
  /\ IF l > TLCGet(1) THEN TLCSet(1, l) ELSE TRUE
  /\ l <= Len(Trace) \/ (PrintT("TRACE_ACCEPTED") /\ TLCSet("exit", TRUE))
Report == PrintT(<<"HIGHWATER", TLCGet(1)>>)
=============================================================================
