------------------------------ MODULE LogTrace ------------------------------
(* Trace validation of the bundled stores (memory, SQLite, durable-streams) against Log.tla.
   Every store call of a driver run is one line with its arguments and results; all steps are
   logged, so validation is linear.  `ok` on reads is the harness' projection of payload fidelity
   (type, JSON data and timestamp instant of every returned event equal what was appended). *)
EXTENDS Log, Json, IOUtils

Trace == ndJsonDeserialize(IOEnv.TRACE)
VARIABLE l
tvars == <<lvars, l>>

Reset ==
  /\ log' = [s \in Stores |-> <<>>]
  /\ pos' = [s \in Stores |-> <<>>]
  /\ appended' = [s \in Stores |-> {}]
  /\ saved' = [s \in Stores |-> <<>>]

EventStep(ev) ==
  \/ ev.e = "reset" /\ Reset
  \* mok: the store's metrics hook (SQLite) was called exactly once for the operation, with its kind, error flag and count
  \/ ev.e = "append" /\ ev.mok /\ AppendEv(ev.s, ev.id, ev.tok, ev.gt)
  \/ ev.e = "read" /\ ev.ok /\ ev.mok /\ ReadEv(ev.s, ev.from, ev.limit, ev.evs, ev.next)
  \/ ev.e = "stream" /\ ev.ok /\ ev.mok /\ Stream(ev.s, ev.from, ev.evs)
  \/ ev.e = "save" /\ ev.mok /\ Save(ev.s, ev.sub, ev.tok)
  \/ ev.e = "load" /\ ev.mok /\ Load(ev.s, ev.sub, ev.tok)
  \/ ev.e = "refused" /\ Refused

TraceInit == LogInit /\ l = 1 /\ TLCSet(1, 1)
TraceNext == l <= Len(Trace) /\ EventStep(Trace[l]) /\ l' = l + 1
TraceSpec == TraceInit /\ [][TraceNext]_tvars

HighWater ==
  /\ IF l > TLCGet(1) THEN TLCSet(1, l) ELSE TRUE
  /\ l <= Len(Trace) \/ (PrintT("TRACE_ACCEPTED") /\ TLCSet("exit", TRUE))
Report == PrintT(<<"HIGHWATER", TLCGet(1)>>)
=============================================================================
