SPECIFICATION Spec
CONSTANTS
  MaxLog = 4
  MaxCrash = 2
  GapWindow = FALSE
  SaveBusLast = TRUE
INVARIANTS InOrderOncePerRun OnlyUnsavedRedelivered ExactlyOnceWithoutCrash SavedMonotone NoLoss
CHECK_DEADLOCK FALSE
