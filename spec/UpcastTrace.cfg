SPECIFICATION TraceSpec
CONSTANTS
  Names = {"A", "B", "C", "D", "E", "F", "P0", "P1", "P2", "P3", "Q0", "Q1", "Q2", "Q3"}
  Empty = ""
CONSTRAINT HighWater
POSTCONDITION Report
CHECK_DEADLOCK FALSE
