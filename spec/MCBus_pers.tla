---------------------------- MODULE MCBus_pers ----------------------------
(* C09/C13/C20 (and C08 with a store): the persistence step inside the publish pipeline - every publish makes one      *)
(* append attempt before its handlers run, failures are reported once and do not stop delivery; two publishing goroutines *)
EXTENDS MCBus
P(once, async, panics, body) ==
  [once |-> once, async |-> async, seq |-> FALSE, filt |-> FALSE, accept |-> {}, panics |-> panics, body |-> body]
persProfiles == { P(FALSE, FALSE, FALSE, <<>>), P(FALSE, TRUE, FALSE, <<>>), P(FALSE, FALSE, TRUE, <<>>),
                  P(TRUE, FALSE, FALSE, <<[op |-> "cancel", ctx |-> "c1"]>>) }
PC(ob, bc, eh) == [obs |-> ob, before |-> FALSE, beforeCtx |-> bc, after |-> FALSE, afterCtx |-> FALSE, panicH |-> FALSE,
                   closer |-> FALSE, store |-> TRUE, perrH |-> eh]
persCfgs == { PC(ob, bc, eh) : ob \in BOOLEAN, bc \in BOOLEAN, eh \in BOOLEAN }
persCfgs1 == { PC(TRUE, FALSE, TRUE) }
persCfgs3 == { PC(FALSE, FALSE, FALSE), PC(TRUE, FALSE, TRUE), PC(FALSE, TRUE, TRUE) }
persRoles == [g \in Procs |-> IF g = 1 THEN {"sub", "pub", "cancel", "wait"} ELSE {"pub"}]
=============================================================================
