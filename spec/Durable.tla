------------------------------- MODULE Durable -------------------------------
(***************************************************************************)
(* What the SQLite store acknowledged survives reopening and a killed      *)
(* process (C14).  Writers append events (and save subscription offsets);  *)
(* each operation is started, becomes durable (the auto-committed          *)
(* statement reaches the WAL) and is acknowledged (the call returns).  The *)
(* process can be killed at any instant, or closed cleanly; it is then     *)
(* reopened (the idempotent migration runs) and written to again.          *)
(***************************************************************************)
EXTENDS Integers, Sequences, FiniteSets, TLC

CONSTANTS Writers, MaxOps, MaxGen

VARIABLES disk,      \* durable log: sequence of event ids
          started,   \* event ids whose Append has been called
          acked,     \* event ids whose Append has returned
          flight,    \* [writer -> event id in flight, or 0]
          committed, \* [writer -> BOOLEAN] the in-flight statement is durable
          up, gen, nextId,
          atOpen     \* what the last Open saw: [log, acked, started]
vars == <<disk, started, acked, flight, committed, up, gen, nextId, atOpen>>

Init == /\ disk = <<>> /\ started = {} /\ acked = {} /\ flight = [w \in Writers |-> 0]
        /\ committed = [w \in Writers |-> FALSE] /\ up = TRUE /\ gen = 0 /\ nextId = 1
        /\ atOpen = [log |-> <<>>, acked |-> {}, started |-> {}]

OpStart(w) == /\ up /\ flight[w] = 0 /\ nextId <= MaxOps
              /\ flight' = [flight EXCEPT ![w] = nextId] /\ started' = started \cup {nextId} /\ nextId' = nextId + 1
              /\ UNCHANGED <<disk, acked, committed, up, gen, atOpen>>
OpCommit(w) == /\ up /\ flight[w] # 0 /\ ~committed[w]
               /\ disk' = Append(disk, flight[w]) /\ committed' = [committed EXCEPT ![w] = TRUE]
               /\ UNCHANGED <<started, acked, flight, up, gen, nextId, atOpen>>
OpAck(w) == /\ up /\ flight[w] # 0 /\ committed[w]
            /\ acked' = acked \cup {flight[w]} /\ flight' = [flight EXCEPT ![w] = 0]
            /\ committed' = [committed EXCEPT ![w] = FALSE]
            /\ UNCHANGED <<disk, started, up, gen, nextId, atOpen>>
\* SIGKILL at any instant: what is durable stays, everything in flight is forgotten
Kill == /\ up /\ gen < MaxGen /\ up' = FALSE
        /\ flight' = [w \in Writers |-> 0] /\ committed' = [w \in Writers |-> FALSE]
        /\ UNCHANGED <<disk, started, acked, gen, nextId, atOpen>>
Close == /\ up /\ gen < MaxGen /\ \A w \in Writers : flight[w] = 0 /\ up' = FALSE
         /\ UNCHANGED <<disk, started, acked, flight, committed, gen, nextId, atOpen>>
Open == /\ ~up /\ up' = TRUE /\ gen' = gen + 1
        /\ atOpen' = [log |-> disk, acked |-> acked, started |-> started]
        /\ UNCHANGED <<disk, started, acked, flight, committed, nextId>>

Next == (\E w \in Writers : OpStart(w) \/ OpCommit(w) \/ OpAck(w)) \/ Kill \/ Close \/ Open
Spec == Init /\ [][Next]_vars

Range(s) == {s[i] : i \in 1..Len(s)}
IsPrefix(a, b) == Len(a) <= Len(b) /\ a = SubSeq(b, 1, Len(a))
\* every acknowledged event is there; nothing that was never started; at most the in-flight ones in addition
AckedSurvive == atOpen.acked \subseteq Range(atOpen.log)
OnlyStarted == Range(atOpen.log) \subseteq atOpen.started
\* the log only grows: what an earlier Open saw is a prefix of what a later one sees
NoDuplicates == \A i, j \in 1..Len(disk) : i # j => disk[i] # disk[j]
=============================================================================
