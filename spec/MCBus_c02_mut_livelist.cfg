SPECIFICATION MCSpec
CONSTANTS
  FifoLock = TRUE
  Types = {"T1", "T2"}
  Procs = {1, 2}
  Fns = {"f0"}
  Vals = {"a"}
  Ctxs = {}
  PubCtxs = {"bg"}
  Profiles <- c02Profiles
  Cfgs <- noCfg
  TopKinds = {"sub", "unsub", "clear", "pub"}
  Roles <- allRoles
  MaxReg = 2
  MaxPub = 2
  MaxTop = 0
  Mutant = "livelist"
INVARIANTS TypeOK AtMostOncePerPublish MustNotDeliver MustDeliver OnceAtMostOnce OnceRetired RegistrySound
CHECK_DEADLOCK FALSE
VIEW View
