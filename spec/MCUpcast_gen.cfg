SPECIFICATION MCSpec
CONSTANTS
  Names = {"A", "B", "C", "D"}
  Empty = ""
  MaxOps = 10
  MaxEdges = 6
  AllowEmpty = TRUE
INVARIANTS Emit
CHECK_DEADLOCK FALSE
