-------------------------------- MODULE State --------------------------------
(***************************************************************************)
(* The state materializer (state/materializer.go): applying state-protocol *)
(* messages to registered collections (C18, C19).                          *)
(*   change messages  [kind |-> "insert" | "update" | "delete", type, key, val]  *)
(*   control messages [kind |-> "reset" | "snapstart" | "snapend"]         *)
(*   input that cannot be applied: [kind |-> "garbage"] (not a state       *)
(*   message at all), [kind |-> "badvalue", type, key] (the value does not *)
(*   decode into the collection's entity type)                             *)
(***************************************************************************)
EXTENDS Integers, Sequences, FiniteSets, TLC

CONSTANTS Registered,   \* entity types with a registered collection
          NoOffset

VARIABLES coll,         \* [Registered -> [key -> value]]   (partial functions)
          last,         \* LastOffset
          strict,       \* WithStrictSchema
          resets, snaps, \* callback counts (WithOnReset, WithOnSnapshot)
          errcb,         \* calls of the WithOnError callback
          snaparg        \* argument of the last WithOnSnapshot call: "none" | "start" (true) | "end" (false)
svars == <<coll, last, strict, resets, snaps, errcb, snaparg>>

Empty == [t \in Registered |-> <<>>]
SInit(s) == coll = Empty /\ last = NoOffset /\ strict = s /\ resets = 0 /\ snaps = 0 /\ errcb = 0
            /\ snaparg = "none"

Drop(f, k) == [x \in DOMAIN f \ {k} |-> f[x]]
IsChange(m) == m.kind \in {"insert", "update", "delete"}

\* the error Apply returns for m (TRUE = rejected)
Rejects(m) ==
  \/ m.kind = "garbage"
  \/ m.kind = "badvalue" /\ (m.type \in Registered \/ strict)
  \/ IsChange(m) /\ m.type \notin Registered /\ strict

\* the collections after m has been applied successfully
Effect(c, m) ==
  IF m.kind = "reset" THEN Empty
  ELSE IF IsChange(m) /\ m.type \in Registered
  THEN IF m.kind = "delete" THEN [c EXCEPT ![m.type] = Drop(@, m.key)]
       ELSE [c EXCEPT ![m.type] = (m.key :> m.val) @@ @]
  ELSE c      \* snapshot markers, unregistered types in non-strict mode

\* the error callback is called when a registered collection fails to apply a change (an ill-typed value)
ErrCallback(m) == IF m.kind = "badvalue" /\ m.type \in Registered THEN 1 ELSE 0

\* the snapshot callback is told which marker it was: start = true, end = false
SnapArg(m, old) == IF m.kind = "snapstart" THEN "start" ELSE IF m.kind = "snapend" THEN "end" ELSE old

\* Materializer.Apply(event with offset off carrying m) returned err
Apply(m, off, err) ==
  /\ err = Rejects(m)
  /\ IF err THEN UNCHANGED <<coll, last, resets, snaps, snaparg>>      \* an event that cannot be applied changes nothing
     ELSE /\ coll' = Effect(coll, m)
          /\ last' = off
          /\ resets' = resets + (IF m.kind = "reset" THEN 1 ELSE 0)
          /\ snaps' = snaps + (IF m.kind \in {"snapstart", "snapend"} THEN 1 ELSE 0)
          /\ snaparg' = SnapArg(m, snaparg)
  /\ errcb' = errcb + ErrCallback(m)
  /\ UNCHANGED strict

\* ApplyChangeMessage / ApplyControlMessage: the same effect on the collections, LastOffset is not touched
ApplyDirect(m, err) ==
  /\ m.kind # "garbage"
  /\ err = Rejects(m)
  /\ IF err THEN UNCHANGED <<coll, resets, snaps, snaparg>>
     ELSE /\ coll' = Effect(coll, m)
          /\ resets' = resets + (IF m.kind = "reset" THEN 1 ELSE 0)
          /\ snaps' = snaps + (IF m.kind \in {"snapstart", "snapend"} THEN 1 ELSE 0)
          /\ snaparg' = SnapArg(m, snaparg)
  /\ errcb' = errcb + ErrCallback(m)
  /\ UNCHANGED <<last, strict>>

\* ---- the fold of a message log (reference definition)
RECURSIVE Fold(_, _)
Fold(msgs, c) == IF msgs = <<>> THEN c
                 ELSE Fold(Tail(msgs), IF Rejects(Head(msgs)) THEN c ELSE Effect(c, Head(msgs)))
=============================================================================
