SPECIFICATION TraceSpec
CONSTANTS
  Stores = {"s1", "s2"}
  Oldest = ""
  Partial = {"s1", "s2"}
  OpaqueEvToks = {"s1", "s2"}
CONSTRAINT HighWater
POSTCONDITION Report
CHECK_DEADLOCK FALSE
