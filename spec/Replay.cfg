SPECIFICATION Spec
CONSTANTS
  N = 5
  Modes = {"stream", "paged"}
  Batches = {1, 2, 3, 6}
INVARIANTS GapFreePrefix NilMeansAll FaultMeansError
CHECK_DEADLOCK FALSE
