------------------------------- MODULE LogImpl -------------------------------
(***************************************************************************)
(* The three bundled stores, written like their code, as implementations   *)
(* of the store contract (Log.tla / MCLog.tla) - with their concrete       *)
(* offset representations:                                                 *)
(*   "mem"    persist.go MemoryStore: 20-digit zero-padded counter,        *)
(*            Read filters `offset > from` and stops at the limit          *)
(*   "sqlite" stores/sqlite: the AUTOINCREMENT position as an unpadded     *)
(*            decimal string (compared as integers inside the store)       *)
(*   "ds"     stores/durablestream: the server answers a read with one     *)
(*            chunk; Read truncates it to the limit but returns the chunk  *)
(*            end as next offset; per-event offsets are synthesised as     *)
(*            <<chunk end, index>>                                         *)
(* A reader chains reads with arbitrary limits, resuming from next         *)
(* offsets.  TLC checks the contract's consequences on each implementation *)
(* - the listed findings D5 (sqlite) and D8 (ds) are exactly the           *)
(* counterexamples.                                                        *)
(***************************************************************************)
EXTENDS Integers, Sequences, FiniteSets, TLC

CONSTANTS Impl, MaxLen, Limits, ChunkSize

VARIABLES n,        \* number of appended events (event i is the i-th)
          appTok,   \* sequence of the offsets Append returned
          cursor,   \* position the reader's current offset denotes
          seen,     \* events the reader has collected
          bad
vars == <<n, appTok, cursor, seen, bad>>

\* decimal digits of a positive integer, most significant first
RECURSIVE Digits(_)
Digits(k) == IF k < 10 THEN <<k>> ELSE Append(Digits(k \div 10), k % 10)
Pad(d, w) == [i \in 1..w |-> IF i <= w - Len(d) THEN 0 ELSE d[i - (w - Len(d))]]
\* lexicographic comparison of digit strings (what "Offsets are lexicographically comparable" means)
RECURSIVE LexLess(_, _)
LexLess(a, b) == IF a = <<>> THEN b # <<>>
                 ELSE IF b = <<>> THEN FALSE
                 ELSE IF Head(a) # Head(b) THEN Head(a) < Head(b)
                 ELSE LexLess(Tail(a), Tail(b))
Token(k) == IF Impl = "mem" THEN Pad(Digits(k), 4) ELSE Digits(k)

Init == n = 0 /\ appTok = <<>> /\ cursor = 0 /\ seen = <<>> /\ bad = {}

DoAppend ==
  /\ n < MaxLen
  /\ n' = n + 1
  /\ appTok' = Append(appTok, Token(n + 1))
  /\ bad' = bad \cup (IF n > 0 /\ ~LexLess(appTok[n], Token(n + 1)) THEN {"lex"} ELSE {})
  /\ UNCHANGED <<cursor, seen>>

Min(a, b) == IF a < b THEN a ELSE b
ChunkEnd(p) == Min(((p \div ChunkSize) + 1) * ChunkSize, n)   \* end of the server chunk that starts after position p

\* Read(cursor, limit): what the implementation returns, and where its next offset points
DoRead ==
  \E limit \in Limits :
    LET hiAll == IF limit > 0 THEN Min(cursor + limit, n) ELSE n
        hiDS  == ChunkEnd(cursor)                                       \* the whole chunk ...
        gotDS == IF limit > 0 THEN Min(cursor + limit, hiDS) ELSE hiDS  \* ... truncated to the limit
        got   == IF Impl = "ds" THEN gotDS ELSE hiAll
        next  == IF Impl = "ds" THEN hiDS ELSE got                      \* ds: the chunk end, whatever was truncated
    IN /\ seen' = seen \o [i \in 1..(got - cursor) |-> cursor + i]
       /\ cursor' = next
  /\ UNCHANGED <<n, appTok, bad>>

Next == DoAppend \/ DoRead
Spec == Init /\ [][Next]_vars

LexIncreasing == "lex" \notin bad
NoGapNoRepeat == seen = [i \in 1..cursor |-> i]
=============================================================================
