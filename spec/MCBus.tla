------------------------------- MODULE MCBus -------------------------------
(***************************************************************************)
(* Model-checking instance of Bus.tla.  Drivers pick their operations      *)
(* from small constant sets; handler bodies are short scripts of re-entrant *)
(* operations taken from the registration's profile.  Finiteness comes     *)
(* from resource bounds (MaxReg registrations, MaxPub publishes), not from *)
(* an operation counter.                                                   *)
(***************************************************************************)
EXTENDS Bus, Json

CONSTANTS Fns,        \* handler function identities (what Unsubscribe compares), usable with every type
          Vals,       \* event payloads
          Ctxs,       \* cancellable context ids (for cancel / Shutdown)
          PubCtxs,    \* contexts publishes are made with (subset of Ctxs \cup {Bg})
          Profiles,   \* set of [once, async, seq, filt, accept, panics, body]
          Cfgs,       \* set of bus configurations
          TopKinds,   \* which operation kinds drivers issue at top level
          Roles,      \* [Procs -> subset of TopKinds]: what each driver may issue (allRoles: everything)
          MaxReg, MaxPub,
          MaxTop,     \* generation only: number of top-level operations per behaviour (0 = unbounded)
          Mutant      \* "none" or the name of a design mutant (must make TLC find a violation)

VARIABLES scr,        \* [invocation (TaskId(pub, reg)) -> remaining body script]
          nreg,       \* registration ids handed out
          hist        \* top-level operations issued so far (generation only; not in the VIEW)

mcvars == <<vars, scr, nreg, hist>>

NextRegId == nreg + 1
NextPubId == npub + 1

\* in simulation (behaviour generation) one random profile per step keeps the operation kinds balanced
ProfChoice == IF MaxTop > 0 THEN {RandomElement(Profiles)} ELSE Profiles

SubOp(t, f, pr) == [op |-> "sub", id |-> NextRegId, t |-> t, fn |-> f, once |-> pr.once, async |-> pr.async,
                 seq |-> pr.seq, filt |-> pr.filt, accept |-> pr.accept, panics |-> pr.panics, body |-> pr.body]

\* body scripts contain templates; ids are filled in when the call is made
Inst(o) == IF o.op = "sub" THEN SubOp(o.t, o.fn, o.pr) ELSE o

allRoles == [g \in Procs |-> TopKinds]
KindsOf(g) == Roles[g]

TopOps(g) ==
  LET TopKinds2 == KindsOf(g) IN
       (IF "sub" \in TopKinds2 /\ NextRegId <= MaxReg THEN {SubOp(tf[1], tf[2], pr) : tf \in Types \X Fns, pr \in ProfChoice} ELSE {})
  \cup (IF "unsub" \in TopKinds2 THEN [op : {"unsub"}, t : Types, fn : Fns] ELSE {})
  \cup (IF "clear" \in TopKinds2 THEN [op : {"clear"}, t : Types] ELSE {})
  \cup (IF "clearall" \in TopKinds2 THEN {[op |-> "clearall"]} ELSE {})
  \cup (IF "count" \in TopKinds2 THEN [op : {"count"}, t : Types] ELSE {})
  \cup (IF "pub" \in TopKinds2 /\ NextPubId <= MaxPub THEN [op : {"pub"}, t : Types, val : Vals, ctx : PubCtxs] ELSE {})
  \cup (IF "cancel" \in TopKinds2 THEN {[op |-> "cancel", ctx |-> c] : c \in Ctxs \ cancelled} ELSE {})
  \cup (IF "wait" \in TopKinds2 THEN {[op |-> "wait"]} ELSE {})
  \cup (IF "shutdown" \in TopKinds2 /\ closed = 0 THEN {[op |-> "shutdown", ctx |-> c] : c \in Ctxs} ELSE {})

DoCall(g, o) ==
  IF o.op = "pub"
  THEN NextPubId <= MaxPub /\ PubCall(g, NextPubId, o.t, o.val, o.ctx) /\ nreg' = nreg
  ELSE IF o.op = "sub" THEN o.id <= MaxReg /\ OpCall(g, o) /\ nreg' = nreg + 1
  ELSE OpCall(g, o) /\ nreg' = nreg

InvKey(g) == TaskId(Top(g).pub, Top(g).reg)

TopCall ==
  \E g \in Procs : /\ stack[g] = <<>>
                   /\ MaxTop = 0 \/ Len(hist) < MaxTop
                   /\ \E o \in TopOps(g) : DoCall(g, o) /\ hist' = Append(hist, [g |-> g, o |-> o])
                   /\ UNCHANGED scr

\* a handler body runs its script, then returns (or panics, if its profile says so)
BodyStep ==
  \E g \in Gs :
    /\ InvAt(g, "body")
    /\ LET key == InvKey(g)
           s == IF key \in DOMAIN scr THEN scr[key] ELSE <<>> IN
       IF s = <<>>
       THEN /\ Exit(g, Top(g).reg, Top(g).pub, attr[Top(g).reg].panics)
            /\ scr' = Restrict(scr, DOMAIN scr \ {key})
            /\ UNCHANGED <<nreg, hist>>
       ELSE LET o == Inst(Head(s)) IN
            /\ scr' = [scr EXCEPT ![key] = Tail(s)]
            /\ hist' = hist
            /\ IF (o.op = "pub" /\ NextPubId > MaxPub) \/ (o.op = "sub" /\ o.id > MaxReg)
               THEN UNCHANGED <<vars, nreg>>       \* resource bound reached: the nested call is not made
               ELSE DoCall(g, o)

\* "nomutex": a Sequential handler's mutex is not taken
MutNoMutex(g) ==
  /\ Mutant = "nomutex" /\ AtEnter(g) /\ ~SeqFree(g)
  /\ EnterBody(g, Top(g).reg, Top(g).pub)

\* entering a body loads its script
EnterStep ==
  \E g \in Gs : /\ AtEnter(g)
                /\ (Enter(g, Top(g).reg, Top(g).pub) \/ MutNoMutex(g))
                /\ scr' = (InvKey(g) :> attr[Top(g).reg].body) @@ scr
                /\ UNCHANGED <<nreg, hist>>

Callbacks ==
  \E g \in Gs :
    \/ ObsPubStart(g) \/ ObsPubDone(g)
    \/ \E h \in {"before", "beforeCtx"} : HookBefore(g, h)
    \/ ObsPersistStart(g) \/ PersistErrH(g)
    \/ \E ok \in BOOLEAN : StoreAppend(g, ok) /\ ~(Mutant = "livectxonly" /\ IsCancelled(Top(g).ctx))
    \/ /\ PubAt(g, "pers1") /\ ObsPersistDone(g, ~Top(g).pok)
    \/ \E h \in {"after", "afterCtx"} : HookAfter(g, h)
    \/ /\ PubAt(g, "filter")
       /\ LET r == Top(g).snap[Top(g).i] IN Filter(g, r, Top(g).val \in attr[r].accept)
    \/ ObsHandlerStart(g)
    \/ PanicHandler(g)
    \/ /\ InvAt(g, "hdone") /\ ObsHandlerDone(g, Top(g).panicked)
    \/ \E ok \in BOOLEAN : StoreClose(g, ok)
    \/ PubRet(g)
    \/ /\ stack[g] # <<>> /\ Top(g).k = "op" /\ Top(g).pc = "ret" /\ OpRet(g, Top(g).res)

\* ---- design mutants: each must be caught by an invariant of Bus.tla ----
\* "livelist": the dispatch loop re-reads the live registry instead of its snapshot
MutSnapshotLive(g) ==
  /\ Mutant = "livelist"
  /\ (PubAt(g, "filter") \/ PubAt(g, "claim") \/ PubAt(g, "dispatch"))
  /\ Top(g).snap # reg[Top(g).t]
  /\ SetTop(g, LoopNorm([Top(g) EXCEPT !.snap = reg[Top(g).t]]))
  /\ UNCHANGED <<cfg, reg, attr, fired, seqHolder, cancelled, closed, pubs, npub, gh>>
\* "noclaim": the Once claim is a plain load followed later by a store (two publishers both pass)
MutClaimRacy(g) ==
  /\ Mutant = "noclaim" /\ PubAt(g, "claim")
  /\ LET f == Top(g)  r == f.snap[f.i] IN
       /\ SetTop(g, [f EXCEPT !.pc = "dispatch", !.retire = @ \cup {r}, !.claimed = @ \cup {r}])
       /\ fired' = fired \cup {r}
       /\ UNCHANGED gh
  /\ \E g2 \in Gs : g2 # g /\ stack[g2] # <<>> /\ Top(g2).k = "pub"
  /\ UNCHANGED <<cfg, reg, attr, seqHolder, cancelled, closed, pubs, npub>>
\* "addinside": wg.Add happens in the spawned goroutine: Wait may pass while the task is not yet counted
MutWaitEarly(g) ==
  /\ Mutant = "addinside"
  /\ g \in Gs /\ stack[g] # <<>> /\ Top(g).k = "op" /\ Top(g).pc = "lin" /\ Top(g).o.op = "wait"
  /\ WaitingTasks = Tasks
  /\ SetTop(g, [Top(g) EXCEPT !.pc = "ret", !.res = "ok"])
  /\ gh' = [gh EXCEPT !.bad = @ \cup Flag(gh.waitNeeds[g] \cap Tasks # {}, "waitEarly")]
  /\ UNCHANGED <<cfg, reg, attr, fired, seqHolder, cancelled, closed, pubs, npub>>
\* "claimfirst": the Once claim is taken before the context is looked at (ebu before the fix of defect D1)
MutClaimFirst(g) ==
  /\ Mutant = "claimfirst" /\ PubAt(g, "claim")
  /\ LET f == Top(g)  r == f.snap[f.i] IN
       /\ r \notin fired /\ IsCancelled(f.ctx)
       /\ fired' = fired \cup {r}
       /\ SetTop(g, [f EXCEPT !.pc = "dispatch", !.retire = @ \cup {r}, !.claimed = @ \cup {r}])
  /\ UNCHANGED <<cfg, reg, attr, seqHolder, cancelled, closed, pubs, npub, gh>>
\* "livectxonly": a publish whose context is already cancelled skips the append
MutLiveCtxOnly(g) ==
  /\ Mutant = "livectxonly" /\ PubAt(g, "append") /\ IsCancelled(Top(g).ctx)
  /\ SetTop(g, [Top(g) EXCEPT !.pc = "snap"])
  /\ UNCHANGED <<cfg, reg, attr, fired, seqHolder, cancelled, closed, pubs, npub, gh>>
\* "retry": a failed append is attempted again
MutRetry(g) ==
  /\ Mutant = "retry" /\ PubAt(g, "snap") /\ ~Top(g).pok
  /\ SetTop(g, [Top(g) EXCEPT !.pc = "append"])
  /\ UNCHANGED <<cfg, reg, attr, fired, seqHolder, cancelled, closed, pubs, npub, gh>>
Mutants == \E g \in Gs : MutSnapshotLive(g) \/ MutClaimRacy(g) \/ MutWaitEarly(g) \/ MutClaimFirst(g) \/ MutLiveCtxOnly(g) \/ MutRetry(g)

Internal == \E g \in Gs : InternalStep(g) \/ TaskSkip(g)

MCInit == /\ \E c \in Cfgs : InitWith(c)
          /\ scr = <<>>
          /\ nreg = 0
          /\ hist = <<>>

MCNext ==
  \/ TopCall
  \/ BodyStep
  \/ EnterStep
  \/ (Callbacks \/ Internal \/ Mutants) /\ UNCHANGED <<scr, nreg, hist>>

MCSpec == MCInit /\ [][MCNext]_mcvars

View == <<vars, scr, nreg>>

\* generation: when a behaviour has issued MaxTop operations and everything has come to rest, print it
Quiescent == (\A g \in Procs : stack[g] = <<>>) /\ Tasks = {}
Emit == ~(MaxTop > 0 /\ Len(hist) = MaxTop /\ Quiescent) \/ PrintT(ToJson([cfg |-> cfg, hist |-> hist]))
=============================================================================
