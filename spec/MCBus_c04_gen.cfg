SPECIFICATION MCSpec
CONSTANTS
  FifoLock = TRUE
  Types = {"T1"}
  Procs = {1}
  Fns = {"f0"}
  Vals = {"a", "b"}
  Ctxs = {"c1"}
  PubCtxs = {"bg", "c1"}
  Profiles <- c04Profiles
  Cfgs <- noCfg
  TopKinds = {"sub", "unsub", "pub", "cancel", "count", "wait"}
  Roles <- allRoles
  MaxReg = 3
  MaxPub = 6
  MaxTop = 10
  Mutant = "none"
INVARIANTS Emit
CHECK_DEADLOCK FALSE
