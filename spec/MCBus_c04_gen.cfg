SPECIFICATION MCSpec
CONSTANTS
  Types = {"T1"}
  Procs = {1}
  Fns = {"f0"}
  Vals = {"a", "b"}
  Ctxs = {"c1"}
  Profiles <- c04Profiles
  Cfgs <- noCfg
  TopKinds = {"sub", "unsub", "pub", "cancel", "count", "wait"}
  MaxReg = 3
  MaxPub = 6
  MaxTop = 10
  Mutant = "none"
INVARIANTS Emit
CHECK_DEADLOCK FALSE
