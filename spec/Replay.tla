------------------------------- MODULE Replay -------------------------------
(***************************************************************************)
(* bus.Replay(ctx, from, callback): the streaming path (range over the     *)
(* store's ReadStream) and the paged path (Read in batches) of persist.go, *)
(* over a store that satisfies Log.tla, with faults: the callback fails at *)
(* event k, the context is cancelled before the call or by the callback at *)
(* event k, the store fails at read j / at streamed element k.             *)
(* Positions stand for offsets (Log.tla decides the offset contract).      *)
(***************************************************************************)
EXTENDS Integers, Sequences, FiniteSets, TLC

CONSTANTS N,          \* log length
          Modes,      \* subset of {"stream", "paged"}
          Batches     \* batch sizes of the paged path

VARIABLES from,       \* start position (events from+1..N are due)
          mode, batch,
          fault,      \* [kind, at]: "none", "cb" (callback error at event #at of this replay),
                      \* "cancelcb" (callback cancels the context at #at), "precancel", "store" (read/element #at fails)
          pc, cursor, page, delivered, cancelled, reads, result, faulted

vars == <<from, mode, batch, fault, pc, cursor, page, delivered, cancelled, reads, result, faulted>>

NoFault == [kind |-> "none", at |-> 0]
Faults == {NoFault} \cup [kind : {"cb", "cancelcb", "store"}, at : 1..(N + 1)] \cup {[kind |-> "precancel", at |-> 0]}

Init ==
  /\ from \in 0..N /\ mode \in Modes /\ batch \in Batches /\ fault \in Faults
  /\ pc = "start" /\ cursor = from /\ page = <<>> /\ delivered = <<>>
  /\ cancelled = (fault.kind = "precancel")
  /\ reads = 0 /\ result = "running" /\ faulted = FALSE

Is(kind) == fault.kind = kind
Finish(r) == /\ pc' = "done" /\ result' = r

\* the user callback for event e (the #Len(delivered)+1-th of this replay)
Callback(e, ok, bad) ==
  LET k == Len(delivered) + 1 IN
  /\ delivered' = Append(delivered, e)
  /\ IF Is("cb") /\ fault.at = k
     THEN /\ faulted' = TRUE /\ cancelled' = cancelled /\ bad
     ELSE /\ cancelled' = (cancelled \/ (Is("cancelcb") /\ fault.at = k))
          /\ faulted' = (faulted \/ (Is("cancelcb") /\ fault.at = k /\ from + k < N))
          /\ ok

\* ---- streaming path: the store checks the context before each yield
StreamStep ==
  /\ (pc = "start" /\ mode = "stream") \/ pc = "stream"
  /\ IF cursor >= N
     THEN Finish("nil") /\ UNCHANGED <<cursor, delivered, cancelled, reads, faulted, page>>
     ELSE IF cancelled
     THEN Finish("err") /\ faulted' = TRUE /\ UNCHANGED <<cursor, delivered, cancelled, reads, page>>
     ELSE IF Is("store") /\ fault.at = cursor - from + 1
     THEN Finish("err") /\ faulted' = TRUE /\ UNCHANGED <<cursor, delivered, cancelled, reads, page>>
     ELSE /\ cursor' = cursor + 1
          /\ Callback(cursor + 1, pc' = "stream" /\ result' = result, Finish("err"))
          /\ UNCHANGED <<reads, page>>
  /\ UNCHANGED <<from, mode, batch, fault>>

\* ---- paged path
PagedRead ==
  /\ (pc = "start" /\ mode = "paged") \/ pc = "page"
  /\ page = <<>>
  /\ IF cancelled
     THEN Finish("err") /\ faulted' = TRUE /\ UNCHANGED <<cursor, page, reads>>
     ELSE /\ reads' = reads + 1
          /\ IF Is("store") /\ fault.at = reads + 1
             THEN Finish("err") /\ faulted' = TRUE /\ UNCHANGED <<cursor, page>>
             ELSE LET hi == IF cursor + batch < N THEN cursor + batch ELSE N IN
                  IF hi = cursor
                  THEN Finish("nil") /\ UNCHANGED <<cursor, page, faulted>>
                  ELSE /\ page' = [i \in 1..(hi - cursor) |-> cursor + i]
                       /\ pc' = "deliver" /\ UNCHANGED <<cursor, result, faulted>>
  /\ UNCHANGED <<from, mode, batch, fault, delivered, cancelled>>

PagedDeliver ==
  /\ pc = "deliver" /\ page # <<>>
  /\ page' = Tail(page)
  /\ cursor' = Head(page)
  /\ Callback(Head(page), pc' = (IF Tail(page) = <<>> THEN "page" ELSE "deliver") /\ result' = result, Finish("err"))
  /\ UNCHANGED <<from, mode, batch, fault, reads>>

Next == StreamStep \/ PagedRead \/ PagedDeliver
Spec == Init /\ [][Next]_vars

\* ------------------------------------------------------------ properties
Due == [i \in 1..(N - from) |-> from + i]
IsPrefix(a, b) == Len(a) <= Len(b) /\ a = SubSeq(b, 1, Len(a))
\* the callback sees a gap-free prefix of the events after the offset, each once, in log order
GapFreePrefix == IsPrefix(delivered, Due)
\* nil only after everything was delivered
NilMeansAll == result = "nil" => delivered = Due
\* a fault that occurred is reported
FaultMeansError == (pc = "done" /\ faulted) => result = "err"
Terminates == <>(pc = "done")
=============================================================================
