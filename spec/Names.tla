-------------------------------- MODULE Names --------------------------------
(***************************************************************************)
(* One type name per event type, everywhere (C15).  An event type has a    *)
(* shape: how it is published (value or pointer) and whether it provides   *)
(* EventTypeName, on the value or on the pointer receiver.  Go's method    *)
(* sets decide whether the published value implements TypeNamer.  Every    *)
(* route that turns a Go type into a stored type name must give the name   *)
(* EventType reports for the published value.                              *)
(***************************************************************************)
EXTENDS TLC, FiniteSets

CONSTANTS TypedRoutesUseReflect   \* TRUE models ebu before the fix of D13: SubscribeWithReplay[T] and RegisterUpcast[From,To]
                                  \* take the reflect name of T, whatever EventType says

Published == {"value", "pointer"}
Namer == {"none", "valueRecv", "pointerRecv"}
Shapes == [pub : Published, namer : Namer]
Routes == {"persist", "subscribeWithReplay", "upcastSource", "upcastTarget"}

\* Go method sets: a value has the value-receiver methods, a pointer has both
Implements(s) == s.namer = "valueRecv" \/ (s.namer = "pointerRecv" /\ s.pub = "pointer")
ReflectName(s) == IF s.pub = "pointer" THEN "*pkg.T" ELSE "pkg.T"
\* what EventType(published value) reports
EventTypeName(s) == IF Implements(s) THEN "custom" ELSE ReflectName(s)

RouteName(s, r) ==
  IF r = "persist" THEN EventTypeName(s)
  ELSE IF TypedRoutesUseReflect THEN ReflectName(s)
  ELSE EventTypeName(s)          \* typeNameOf[T]: the name EventType reports for a value of type T

VARIABLE done
Init == done = FALSE
Next == done' = TRUE
Spec == Init /\ [][Next]_done

OneName == \A s \in Shapes : \A r \in Routes : RouteName(s, r) = EventTypeName(s)
=============================================================================
