----------------------------- MODULE PersistTrace -----------------------------
(* Trace validation of publishes on a persistent bus (C09, C13, persist part of C20).  One segment is one
   bus: the options of New in the order given, then publishes of kind ok / unenc (no JSON encoding) /
   apperr (the store rejects the append) / timeout (the append blocks until the persistence timeout).
   Lines: the user's context hook, the observability persist callbacks, the store's Append as seen by the
   harness' wrapper, the persistence error handler, every handler invocation with what it found in the
   store, and the return with the store's record count.  The acceptor mirrors the invariants of
   Persist.tla. *)
EXTENDS Integers, Sequences, TLC, Json, IOUtils

Trace == ndJsonDeserialize(IOEnv.TRACE)
VARIABLES l, bus, nrec, cur, c
tvars == <<l, bus, nrec, cur, c>>

Zero == [appends |-> 0, appendOk |-> FALSE, errh |-> 0, pstart |-> 0, pdone |-> 0, pdoneErr |-> FALSE, ran |-> 0, userhook |-> 0]
Failing(k) == k \in {"unenc", "apperr", "timeout"}

EventStep(ev) ==
  \/ /\ ev.e = "new"
     /\ bus' = ev /\ nrec' = 0 /\ cur' = [p |-> 0, kind |-> "none"] /\ c' = Zero
  \/ /\ ev.e = "pub" /\ cur.kind = "none"
     /\ cur' = [p |-> ev.p, kind |-> ev.kind] /\ c' = Zero /\ UNCHANGED <<bus, nrec>>
  \/ /\ ev.e = "userhook" /\ ev.p = cur.p /\ c.ran = 0                     \* before any handler
     /\ c' = [c EXCEPT !.userhook = @ + 1] /\ UNCHANGED <<bus, nrec, cur>>
  \/ /\ ev.e = "pstart" /\ ev.p = cur.p /\ c.appends = c.pstart             \* start precedes its append
     /\ c' = [c EXCEPT !.pstart = @ + 1] /\ UNCHANGED <<bus, nrec, cur>>
  \/ /\ ev.e = "append" /\ ev.p = cur.p
     /\ bus.persistent /\ cur.kind # "unenc"                               \* an unencodable event is never handed to the store
     /\ c.appends = 0                                                      \* never retried
     /\ c.ran = 0                                                          \* before any handler of the publish
     /\ bus.obs => c.pstart = 1
     /\ ev.res = (IF cur.kind = "ok" THEN "ok" ELSE IF cur.kind = "apperr" THEN "err" ELSE "timeout")
     /\ ev.res = "ok" => ev.gt                                             \* offsets keep increasing
     /\ c' = [c EXCEPT !.appends = 1, !.appendOk = (ev.res = "ok")]
     /\ nrec' = IF ev.res = "ok" THEN nrec + 1 ELSE nrec
     /\ UNCHANGED <<bus, cur>>
  \/ /\ ev.e = "pdone" /\ ev.p = cur.p /\ c.appends = 1 /\ c.pdone = 0
     /\ ev.tokok                                                           \* complete receives the context its start returned
     /\ ev.err = ~c.appendOk                                               \* error exactly when the append failed
     /\ c' = [c EXCEPT !.pdone = 1, !.pdoneErr = ev.err] /\ UNCHANGED <<bus, nrec, cur>>
  \/ /\ ev.e = "errh" /\ ev.p = cur.p /\ ev.ok
     /\ Failing(cur.kind) /\ c.errh = 0                                    \* reported exactly once, only for failures
     /\ cur.kind # "unenc" => c.appends = 1 /\ ~c.appendOk
     /\ c' = [c EXCEPT !.errh = 1] /\ UNCHANGED <<bus, nrec, cur>>
  \/ /\ ev.e = "handler" /\ ev.p = cur.p
     /\ (bus.persistent /\ cur.kind = "ok") => c.appendOk /\ ev.saw        \* the record is readable before any handler runs
     /\ (bus.persistent /\ Failing(cur.kind)) => ~ev.saw                   \* nothing is written for a failed publish
     /\ ev.n = nrec
     /\ c' = [c EXCEPT !.ran = @ + 1] /\ UNCHANGED <<bus, nrec, cur>>
  \/ /\ ev.e = "pubret" /\ ev.p = cur.p
     /\ c.ran = bus.nh                                                     \* every handler ran, whatever happened to persistence
     /\ ev.n = nrec /\ ev.recok
     /\ bus.persistent => c.appends = (IF cur.kind = "unenc" THEN 0 ELSE 1)
     /\ (bus.persistent /\ bus.errh /\ Failing(cur.kind)) => c.errh = 1
     /\ (bus.persistent /\ bus.obs) => c.pstart = c.appends /\ c.pdone = c.appends
     /\ ~bus.persistent => c.appends = 0
     /\ bus.userhook => c.userhook = 1
     /\ cur' = [p |-> 0, kind |-> "none"] /\ UNCHANGED <<bus, nrec, c>>

TraceInit == /\ l = 1 /\ bus = [e |-> "none"] /\ nrec = 0 /\ cur = [p |-> 0, kind |-> "none"] /\ c = Zero /\ TLCSet(1, 1)
TraceNext == l <= Len(Trace) /\ EventStep(Trace[l]) /\ l' = l + 1
TraceSpec == TraceInit /\ [][TraceNext]_tvars
HighWater ==
  /\ IF l > TLCGet(1) THEN TLCSet(1, l) ELSE TRUE
  /\ l <= Len(Trace) \/ (PrintT("TRACE_ACCEPTED") /\ TLCSet("exit", TRUE))
Report == PrintT(<<"HIGHWATER", TLCGet(1)>>)
=============================================================================
