SPECIFICATION MCSpec
CONSTANTS
  Names = {"A", "B", "C"}
  Empty = ""
  MaxOps = 0
  MaxEdges = 3
  AllowEmpty = TRUE
INVARIANTS DFSAgrees Acyclic ApplyTerminates
CHECK_DEADLOCK FALSE
VIEW View
