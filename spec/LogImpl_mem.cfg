SPECIFICATION Spec
CONSTANTS
  Impl = "mem"
  MaxLen = 11
  Limits = {0, 1, 2}
  ChunkSize = 3
INVARIANTS LexIncreasing NoGapNoRepeat
CHECK_DEADLOCK FALSE
