SPECIFICATION Spec
CONSTANTS
  Threads = {"g1", "g2"}
  TopOps <- topOps
  NestedOps <- nestedOps
  MaxDepth = 2
  MaxOpsPerThread = 1
  SelfPublishInSeq = TRUE
  HoldReadLockInDispatch = FALSE
INVARIANT Exclusive
CHECK_DEADLOCK TRUE
