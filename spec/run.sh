#!/bin/bash
# dev helper: run.sh <Module> <Config(.cfg omitted)> [tlc args...]  — runs TLC in a scratch copy
M=$1; C=$2; shift; shift
W=$(mktemp -d /tmp/tlcw.XXXX); cp /verif/spec/*.tla /verif/spec/*.cfg $W/; cd $W
timeout ${TLC_TIMEOUT:-900} tlc -workers ${WORKERS:-16} -metadir $W/meta -config $C.cfg "$@" $M.tla 2>&1
rc=$?
cd /; rm -rf $W
exit $rc
