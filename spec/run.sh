#!/bin/bash
# dev helper: run.sh <Module> [tlc args...]  — runs TLC in a scratch copy
M=$1; shift
W=$(mktemp -d /tmp/tlcw.XXXX); cp /verif/spec/*.tla /verif/spec/*.cfg $W/; cd $W
timeout ${TLC_TIMEOUT:-900} tlc -workers ${WORKERS:-16} -metadir $W/meta -config $M.cfg "$@" $M.tla 2>&1
rc=$?
cd /; rm -rf $W
exit $rc
