SPECIFICATION TraceSpec
CONSTANTS
  Stores = {"s1", "s2"}
  Oldest = ""
  Partial = {}
  OpaqueEvToks = {}
CONSTRAINT HighWater
POSTCONDITION Report
CHECK_DEADLOCK FALSE
