------------------------------ MODULE StateTrace ------------------------------
(* Trace validation of the materializer against State.tla.  Every applied event is one line: the abstract
   message (as the harness built it with the real helper constructors and sent it through publish, store and
   replay), Apply's error flag, and the full projected state afterwards (every collection via All(), LastOffset,
   callback counts).  "final" lines carry the state of a second materializer that applied the same log in two
   sessions (the second resumed from LastOffset).  "fuzz" lines are arbitrary bytes: no panic, and an error
   leaves everything unchanged.  "roundtrip" lines are payload-level comparisons made by the harness. *)
EXTENDS State, Json, IOUtils

Trace == ndJsonDeserialize(IOEnv.TRACE)
VARIABLE l
tvars == <<svars, l>>

Triples(c) == UNION {{<<t, k, c[t][k]>> : k \in DOMAIN c[t]} : t \in Registered}
Logged(st) == {<<st[i][1], st[i][2], st[i][3]>> : i \in 1..Len(st)}

\* what the callbacks themselves observed: the snapshot callback's last argument (start = true, end = false)
Callbacks(e) == e.snaparg = snaparg'

EventStep(e) ==
  \/ /\ e.e = "new"
     /\ coll' = Empty /\ last' = NoOffset /\ strict' = e.strict /\ resets' = 0 /\ snaps' = 0 /\ errcb' = 0 /\ snaparg' = "none"
  \/ /\ e.e = "apply"
     /\ Apply(e.msg, e.off, e.err)
     /\ Logged(e.state) = Triples(coll') /\ e.last = last' /\ e.resets = resets' /\ e.snaps = snaps' /\ e.errcb = errcb'
     /\ Callbacks(e)
  \/ /\ e.e = "applydirect"                               \* ApplyChangeMessage / ApplyControlMessage
     /\ ApplyDirect(e.msg, e.err)
     /\ Logged(e.state) = Triples(coll') /\ e.last = last' /\ e.resets = resets' /\ e.snaps = snaps' /\ e.errcb = errcb'
     /\ Callbacks(e)
  \/ /\ e.e = "final"                                     \* two sessions give the same state as one
     /\ Logged(e.state) = Triples(coll) /\ e.last = last
     /\ UNCHANGED svars
  \/ /\ e.e = "fuzz"
     /\ ~e.panicked
     /\ e.err => ~e.changed /\ ~e.lastmoved
     /\ UNCHANGED svars
  \/ /\ e.e = "roundtrip" /\ e.ok /\ UNCHANGED svars

TraceInit == SInit(FALSE) /\ l = 1 /\ TLCSet(1, 1)
TraceNext == l <= Len(Trace) /\ EventStep(Trace[l]) /\ l' = l + 1
TraceSpec == TraceInit /\ [][TraceNext]_tvars
HighWater ==
  /\ IF l > TLCGet(1) THEN TLCSet(1, l) ELSE TRUE
  /\ l <= Len(Trace) \/ (PrintT("TRACE_ACCEPTED") /\ TLCSet("exit", TRUE))
Report == PrintT(<<"HIGHWATER", TLCGet(1)>>)
=============================================================================
