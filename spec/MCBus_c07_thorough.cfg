SPECIFICATION MCSpec
CONSTANTS
  FifoLock = TRUE
  Types = {"T1"}
  Procs = {1, 2}
  Fns = {"f0"}
  Vals = {"a"}
  Ctxs = {"c1"}
  PubCtxs = {"bg", "c1"}
  Profiles <- c07Profiles
  Cfgs <- noCfg
  TopKinds = {"sub", "pub", "cancel", "wait"}
  Roles <- allRoles
  MaxReg = 2
  MaxPub = 3
  MaxTop = 0
  Mutant = "none"
INVARIANTS TypeOK AtMostOncePerPublish MustNotDeliver MustDeliver NoOverlap SeqFifo WaitCovers
CHECK_DEADLOCK FALSE
VIEW View
