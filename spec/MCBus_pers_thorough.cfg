SPECIFICATION MCSpec
CONSTANTS
  FifoLock = TRUE
  Types = {"T1"}
  Procs = {1, 2}
  Fns = {"f0"}
  Vals = {"a"}
  Ctxs = {"c1"}
  PubCtxs = {"bg", "c1"}
  Profiles <- persProfiles
  Cfgs <- persCfgs1
  TopKinds = {"sub", "pub", "cancel", "wait"}
  Roles <- persRoles
  MaxReg = 2
  MaxPub = 2
  MaxTop = 0
  Mutant = "none"
INVARIANTS TypeOK AtMostOncePerPublish MustNotDeliver MustDeliver OnceAtMostOnce OnceRetired WaitCovers OnceNotWasted RecordedFirst AppendOnce LogSound 
CHECK_DEADLOCK FALSE
VIEW View
