SPECIFICATION MCSpec
CONSTANTS
  FifoLock = TRUE
  Types = {"T1"}
  Procs = {1}
  Fns = {"f0"}
  Vals = {"a"}
  Ctxs = {}
  PubCtxs = {"bg"}
  Profiles <- c05Profiles
  Cfgs <- c05Cfgs
  TopKinds = {"sub", "pub", "wait", "count"}
  Roles <- allRoles
  MaxReg = 2
  MaxPub = 2
  MaxTop = 0
  Mutant = "none"
INVARIANTS TypeOK AtMostOncePerPublish MustNotDeliver MustDeliver OnceAtMostOnce OnceRetired NoOverlap WaitCovers OnceNotWasted
CHECK_DEADLOCK FALSE
VIEW View
