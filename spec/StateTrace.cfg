SPECIFICATION TraceSpec
CONSTANTS
  Registered = {"ta", "tb"}
  NoOffset = 0
CONSTRAINT HighWater
POSTCONDITION Report
CHECK_DEADLOCK FALSE
