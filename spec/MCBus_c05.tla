---------------------------- MODULE MCBus_c05 ----------------------------
(* C05/C08/C20: panics, context cancellation, hooks and observability callbacks; one driver goroutine *)
EXTENDS MCBus
P(once, async, seq, panics, body) ==
  [once |-> once, async |-> async, seq |-> seq, filt |-> FALSE, accept |-> {}, panics |-> panics, body |-> body]
c05Profiles == { P(o, a, s, p, <<>>) : o \in BOOLEAN, a \in BOOLEAN, s \in BOOLEAN, p \in BOOLEAN }
c05Cfgs == {[obs |-> ob, before |-> FALSE, beforeCtx |-> FALSE, after |-> FALSE, afterCtx |-> FALSE, panicH |-> ph, closer |-> FALSE]
             : ob \in BOOLEAN, ph \in BOOLEAN}
c08Profiles == { P(FALSE, FALSE, FALSE, FALSE, <<>>), P(FALSE, TRUE, FALSE, FALSE, <<>>),
                 P(FALSE, FALSE, FALSE, FALSE, <<[op |-> "cancel", ctx |-> "c1"]>>),
                 P(TRUE, FALSE, FALSE, FALSE, <<[op |-> "ctxerr", ctx |-> "c1"]>>) }
C8(ob, b, bc, a, ac) == [obs |-> ob, before |-> b, beforeCtx |-> bc, after |-> a, afterCtx |-> ac, panicH |-> FALSE, closer |-> FALSE]
c08Cfgs == { C8(FALSE, FALSE, FALSE, FALSE, FALSE), C8(FALSE, TRUE, TRUE, TRUE, TRUE), C8(FALSE, TRUE, FALSE, FALSE, TRUE),
             C8(FALSE, FALSE, TRUE, TRUE, FALSE), C8(TRUE, TRUE, TRUE, TRUE, TRUE), C8(TRUE, FALSE, FALSE, FALSE, FALSE) }
=============================================================================
