----------------------------- MODULE ResumeTrace -----------------------------
(***************************************************************************)
(* Trace validation of resumable subscriptions (SubscribeWithReplay)       *)
(* across publishes, restarts, crashes at store-operation boundaries and   *)
(* failing store operations.  The harness' store wrapper logs every store  *)
(* operation with the log position its offset denotes (the wrapper knows   *)
(* the offset Append returned for every position); handlers log every      *)
(* delivery.  The acceptor is the property C12 as an automaton; the design *)
(* that is meant to satisfy it is Resume.tla.                              *)
(***************************************************************************)
EXTENDS Integers, Sequences, FiniteSets, TLC, Json, IOUtils

Trace == ndJsonDeserialize(IOEnv.TRACE)

VARIABLES l,
          log,        \* sequence of [ev, type]: what the store holds
          subs,       \* [sub -> [type, delivered (set of positions, all incarnations), inc (positions delivered in this incarnation, in order),
                      \*          base (highest position saved before this incarnation began), savedMax, live]]
          disturbed   \* a crash or a failed store operation has happened since the last restart of the world
tvars == <<l, log, subs, disturbed>>

Max(a, b) == IF a > b THEN a ELSE b
Last(s) == s[Len(s)]
PosOf(ev) == CHOOSE i \in 1..Len(log) : log[i].ev = ev
Known(ev) == \E i \in 1..Len(log) : log[i].ev = ev
NewSub(t) == [type |-> t, delivered |-> {}, inc |-> <<>>, base |-> 0, savedMax |-> 0, live |-> FALSE]

EventStep(e) ==
  \/ /\ e.e = "reset" /\ log' = <<>> /\ subs' = <<>> /\ disturbed' = FALSE
  \/ /\ e.e = "append"                                     \* the store accepted an event
     /\ log' = Append(log, [ev |-> e.ev, type |-> e.type]) /\ UNCHANGED <<subs, disturbed>>
  \/ /\ e.e = "restart"                                    \* a new bus on the same stores; live subscriptions are gone
     /\ subs' = [s \in DOMAIN subs |-> [subs[s] EXCEPT !.inc = <<>>, !.base = subs[s].savedMax, !.live = FALSE]]
     /\ UNCHANGED <<log, disturbed>>
  \/ /\ e.e = "disturb" /\ disturbed' = TRUE /\ UNCHANGED <<log, subs>>   \* a crash or an injected store failure
  \/ /\ e.e = "subscribe"                                  \* SubscribeWithReplay(sub) is called
     /\ subs' = IF e.sub \in DOMAIN subs THEN subs ELSE (e.sub :> NewSub(e.type)) @@ subs
     /\ UNCHANGED <<log, disturbed>>
  \/ /\ e.e = "deliver" /\ e.sub \in DOMAIN subs /\ ~Known(e.ev)   \* an event whose append failed is still delivered live (C13)
     /\ UNCHANGED <<log, subs, disturbed>>
  \/ /\ e.e = "deliver" /\ e.sub \in DOMAIN subs /\ Known(e.ev)
     /\ LET s == subs[e.sub]  q == PosOf(e.ev) IN
          /\ log[q].type = s.type                           \* only events of the subscribed type
          /\ s.inc # <<>> => q > Last(s.inc)                \* in log order, never twice within one run
          /\ q > s.base                                     \* only an event whose position had not been saved is delivered again
          /\ ~disturbed => q \notin s.delivered             \* exactly once when nothing crashes or fails
          /\ subs' = [subs EXCEPT ![e.sub] = [s EXCEPT !.delivered = @ \cup {q}, !.inc = Append(@, q)]]
     /\ UNCHANGED <<log, disturbed>>
  \/ /\ e.e = "save" /\ e.sub \in DOMAIN subs              \* SaveOffset(sub) succeeded with an offset denoting position e.pos
     /\ e.pos >= subs[e.sub].savedMax                      \* the saved offset never moves backwards
     /\ e.pos <= Len(log)
     /\ \A q \in 1..e.pos : log[q].type = subs[e.sub].type => q \in subs[e.sub].delivered   \* nothing before it is still undelivered
     /\ subs' = [subs EXCEPT ![e.sub].savedMax = e.pos]
     /\ UNCHANGED <<log, disturbed>>
  \/ /\ e.e = "subscribed" /\ e.sub \in DOMAIN subs        \* SubscribeWithReplay returned nil: the subscription is live
     /\ subs' = [subs EXCEPT ![e.sub].live = TRUE] /\ UNCHANGED <<log, disturbed>>
  \/ /\ e.e = "quiet"                                      \* all calls have returned: no event of a live subscription is missing
     /\ \A s \in DOMAIN subs : subs[s].live =>
           \A q \in 1..Len(log) : log[q].type = subs[s].type => q \in subs[s].delivered
     /\ UNCHANGED <<log, subs, disturbed>>

TraceInit == l = 1 /\ log = <<>> /\ subs = <<>> /\ disturbed = FALSE /\ TLCSet(1, 1)
TraceNext == l <= Len(Trace) /\ EventStep(Trace[l]) /\ l' = l + 1
TraceSpec == TraceInit /\ [][TraceNext]_tvars
HighWater ==
  /\ IF l > TLCGet(1) THEN TLCSet(1, l) ELSE TRUE
  /\ l <= Len(Trace) \/ (PrintT("TRACE_ACCEPTED") /\ TLCSet("exit", TRUE))
Report == PrintT(<<"HIGHWATER", TLCGet(1)>>)
=============================================================================
