SPECIFICATION Spec
CONSTANTS
  Writers = {1, 2}
  MaxOps = 4
  MaxGen = 3
INVARIANTS AckedSurvive OnlyStarted NoDuplicates
CHECK_DEADLOCK FALSE
