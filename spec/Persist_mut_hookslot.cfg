SPECIFICATION Spec
CONSTANTS
  Opts = {"store", "beforeCtx", "before", "errh", "obs"}
  Kinds = {"ok", "unenc", "apperr", "timeout"}
  MaxPub = 3
  NHandlers = 2
  HookSlot = TRUE
INVARIANTS RecordedOnce RecordBeforeDispatch Contained ReportedOnce NoRetry NothingWritten LogInPublishOrder LastOffsetOnlySuccess PersistObsBalanced UserHookOnce
CHECK_DEADLOCK FALSE
