------------------------------ MODULE BusTrace ------------------------------
(***************************************************************************)
(* Trace validation for Bus.tla: is an execution recorded from the real    *)
(* ebu code (harness/busdrv) a behaviour of the specification?             *)
(*                                                                         *)
(* Every trace line is one observable action of Bus.tla with its arguments *)
(* bound to the logged fields; the internal steps of ebu (linearization    *)
(* points, snapshot, once-claim, dispatch, mutex acquisition, retirement)  *)
(* are not logged and are placed by TLC between the lines.  A file holds   *)
(* many executions, separated by "new" lines (a fresh bus).                *)
(* Acceptance: some path consumes every line (TRACE_ACCEPTED); otherwise   *)
(* the longest explained prefix is reported (HIGHWATER).                   *)
(***************************************************************************)
EXTENDS Bus, Json, IOUtils

Trace == ndJsonDeserialize(IOEnv.TRACE)

VARIABLES l,      \* next trace line
          toks    \* [goroutine -> Seq(token)]: contexts returned by OnHandlerStart for the running invocations

tvars == <<vars, l, toks>>

Tok(g) == IF g \in DOMAIN toks THEN toks[g] ELSE <<>>
Last(s) == s[Len(s)]

Reset(c) ==
  /\ cfg' = c
  /\ reg' = [t \in Types |-> <<>>]
  /\ attr' = <<>>
  /\ fired' = {}
  /\ seqHolder' = <<>>
  /\ cancelled' = {}
  /\ stack' = [p \in Procs |-> <<>>]
  /\ closed' = 0
  /\ pubs' = <<>>
  /\ npub' = 0
  /\ gh' = GhostInit
  /\ toks' = <<>>

\* the goroutine on which user code for publish p runs synchronously
PubG(p) == pubs[p].g
HandlerG(r, p) == IF attr[r].async THEN TaskId(p, r) ELSE PubG(p)
KnownSync(p) == p \in DOMAIN pubs
KnownInv(r, p) == r \in DOMAIN attr /\ (attr[r].async \/ p \in DOMAIN pubs)

EventStep(ev) ==
  \/ /\ ev.e = "new" /\ Reset(ev.cfg)
  \/ /\ ev.e = "call" /\ OpCall(ev.g, ev.o) /\ UNCHANGED toks
  \/ /\ ev.e = "ret" /\ OpRet(ev.g, ev.res) /\ UNCHANGED toks
  \/ /\ ev.e = "pcall" /\ PubCall(ev.g, ev.p, ev.t, ev.val, ev.ctx) /\ UNCHANGED toks
  \/ /\ ev.e = "pret" /\ PubAt(ev.g, "ret") /\ Top(ev.g).pub = ev.p /\ PubRet(ev.g) /\ UNCHANGED toks
  \/ /\ ev.e = "pstart" /\ KnownSync(ev.p) /\ ev.ok
     /\ PubAt(PubG(ev.p), "obs0") /\ Top(PubG(ev.p)).pub = ev.p /\ ObsPubStart(PubG(ev.p)) /\ UNCHANGED toks
  \/ /\ ev.e = "pdone" /\ KnownSync(ev.p) /\ ev.ok
     /\ PubAt(PubG(ev.p), "obs1") /\ Top(PubG(ev.p)).pub = ev.p /\ ObsPubDone(PubG(ev.p)) /\ UNCHANGED toks
  \/ /\ ev.e = "hookb" /\ KnownSync(ev.p) /\ ev.ok
     /\ PubAt(PubG(ev.p), "before") /\ Top(PubG(ev.p)).pub = ev.p /\ HookBefore(PubG(ev.p), ev.h) /\ UNCHANGED toks
  \/ /\ ev.e = "hooka" /\ KnownSync(ev.p) /\ ev.ok
     /\ PubAt(PubG(ev.p), "after") /\ Top(PubG(ev.p)).pub = ev.p /\ HookAfter(PubG(ev.p), ev.h) /\ UNCHANGED toks
  \/ /\ ev.e = "perss" /\ KnownSync(ev.p) /\ ev.ok                    \* ok: the persist context descends from OnPublishStart's
     /\ PubAt(PubG(ev.p), "pers0") /\ Top(PubG(ev.p)).pub = ev.p /\ ObsPersistStart(PubG(ev.p)) /\ UNCHANGED toks
  \/ /\ ev.e = "append" /\ KnownSync(ev.p) /\ ev.ok                   \* ok: type name and data are the event's
     /\ PubAt(PubG(ev.p), "append") /\ Top(PubG(ev.p)).pub = ev.p /\ StoreAppend(PubG(ev.p), ev.res) /\ UNCHANGED toks
  \/ /\ ev.e = "persd" /\ KnownSync(ev.p) /\ ev.ok                    \* ok: complete receives the context its start returned
     /\ PubAt(PubG(ev.p), "pers1") /\ Top(PubG(ev.p)).pub = ev.p /\ ObsPersistDone(PubG(ev.p), ev.err) /\ UNCHANGED toks
  \/ /\ ev.e = "perrh" /\ KnownSync(ev.p) /\ ev.ok                    \* ok: called with the event and its type
     /\ PubAt(PubG(ev.p), "perrh") /\ Top(PubG(ev.p)).pub = ev.p /\ PersistErrH(PubG(ev.p)) /\ UNCHANGED toks
  \/ /\ ev.e = "filter" /\ KnownSync(ev.p)
     /\ PubAt(PubG(ev.p), "filter") /\ Top(PubG(ev.p)).pub = ev.p /\ Filter(PubG(ev.p), ev.r, ev.res) /\ UNCHANGED toks
  \/ /\ ev.e = "hstart"
     /\ \E g \in Gs : /\ stack[g] # <<>> /\ Top(g).k = "inv" /\ Top(g).pub = ev.p /\ Top(g).async = ev.async
                      /\ (~ev.async => KnownSync(ev.p) /\ g = PubG(ev.p))
                      /\ ev.pok                                \* the handler context's innermost span is the publish's
                      /\ ObsHandlerStart(g)
                      /\ toks' = (g :> Append(Tok(g), ev.tok)) @@ toks
  \/ /\ ev.e = "enter" /\ KnownInv(ev.r, ev.p)
     /\ LET g == HandlerG(ev.r, ev.p) IN
          /\ Enter(g, ev.r, ev.p)
          /\ ~FifoInversion(g)                                 \* C07: Async+Sequential processes a goroutine's publishes in order
          /\ ev.ctxp = ev.p                                    \* the handler's context carries the publish context's values
          /\ (ev.ca /\ cfg.obs) => (Tok(g) # <<>> /\ ev.tok = Last(Tok(g)))   \* ... and descends from OnHandlerStart's
     /\ UNCHANGED toks
  \/ /\ ev.e = "exit" /\ KnownInv(ev.r, ev.p)
     /\ Exit(HandlerG(ev.r, ev.p), ev.r, ev.p, ev.panicked) /\ UNCHANGED toks
  \/ /\ ev.e = "panich" /\ KnownInv(ev.r, ev.p) /\ ev.ok
     /\ LET g == HandlerG(ev.r, ev.p) IN
          InvAt(g, "panich") /\ Top(g).reg = ev.r /\ Top(g).pub = ev.p /\ PanicHandler(g)
     /\ UNCHANGED toks
  \/ /\ ev.e = "hdone"
     /\ \E g \in Gs : /\ InvAt(g, "hdone") /\ Top(g).pub = ev.p
                      /\ Tok(g) # <<>> /\ Last(Tok(g)) = ev.tok          \* complete receives the context its start returned
                      /\ ObsHandlerDone(g, ev.err)
                      /\ toks' = (g :> SubSeq(Tok(g), 1, Len(Tok(g)) - 1)) @@ toks
  \/ /\ ev.e = "close" /\ (\E g \in Gs : StoreClose(g, ev.ok)) /\ UNCHANGED toks
  \/ /\ ev.e = "otel" /\ ev.ok /\ UNCHANGED <<vars, toks>>       \* the OpenTelemetry SDK's spans and counters agree with the recorded callbacks

TraceInit ==
  /\ InitWith([obs |-> FALSE, before |-> FALSE, beforeCtx |-> FALSE, after |-> FALSE, afterCtx |-> FALSE,
               panicH |-> FALSE, closer |-> FALSE])
  /\ l = 1
  /\ toks = <<>>
  /\ TLCSet(1, 1)

TraceNext ==
  /\ l <= Len(Trace)
  /\ \/ EventStep(Trace[l]) /\ l' = l + 1
     \/ (\E g \in Gs : InternalStep(g)) /\ UNCHANGED <<l, toks>>

TraceSpec == TraceInit /\ [][TraceNext]_tvars

\* high-water mark of consumed lines; stop as soon as one path has consumed the whole trace
HighWater ==
  /\ IF l > TLCGet(1) THEN TLCSet(1, l) ELSE TRUE
  /\ l <= Len(Trace) \/ (PrintT("TRACE_ACCEPTED") /\ TLCSet("exit", TRUE))

Report == PrintT(<<"HIGHWATER", TLCGet(1)>>)
=============================================================================
