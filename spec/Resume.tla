------------------------------- MODULE Resume -------------------------------
(***************************************************************************)
(* SubscribeWithReplay (persist.go) for one subscription id of event type  *)
(* "A" on a persistent bus, across restarts and crashes: load the saved    *)
(* offset, replay the log after it (deliver, then save the event's         *)
(* offset), go live (deliver, then save).  A second process publishes      *)
(* events of types "A" and "B" at any time; the process may die between    *)
(* any two steps; a new incarnation starts from the durable state (log,    *)
(* saved offset).  Offsets are positions (Log.tla decides the offset       *)
(* contract).                                                              *)
(*                                                                         *)
(* GapWindow = TRUE models ebu as it is: the live registration happens in  *)
(* a step of its own after the replay loop has ended (defect D11: an event *)
(* published in between is neither replayed nor delivered live).           *)
(* SaveBusLast = TRUE models the live handler before the fix of D10: it    *)
(* saves the bus's last appended offset instead of the event's own.        *)
(***************************************************************************)
EXTENDS Integers, Sequences, FiniteSets, TLC

CONSTANTS MaxLog, MaxCrash, GapWindow, SaveBusLast

VARIABLES log,        \* Seq of "A" / "B"
          saved,      \* durable: position saved for the subscription
          phase,      \* "down" | "replay" | "ended" | "live"
          cursor,     \* replay position
          pend,       \* position delivered but not yet saved by the subscriber process (0 = none)
          pub,        \* publisher process: [pc |-> "idle" | "appended" | "delivered", pos]
          busLast,    \* position of the last append of this incarnation (0 = none)
          base,       \* saved position at the start of this incarnation
          inc,        \* positions delivered in this incarnation, in order
          all,        \* positions delivered in any incarnation
          crashes, savedMax, bad
vars == <<log, saved, phase, cursor, pend, pub, busLast, base, inc, all, crashes, savedMax, bad>>

Idle == [pc |-> "idle", pos |-> 0]
Init == /\ log = <<>> /\ saved = 0 /\ phase = "down" /\ cursor = 0 /\ pend = 0 /\ pub = Idle /\ busLast = 0
        /\ base = 0 /\ inc = <<>> /\ all = {} /\ crashes = 0 /\ savedMax = 0 /\ bad = {}

Flag(c, n) == IF c THEN {n} ELSE {}
Deliver(q) ==
  /\ inc' = Append(inc, q)
  /\ all' = all \cup {q}
  /\ bad' = bad \cup Flag(inc # <<>> /\ q <= inc[Len(inc)], "order") \cup Flag(q <= base, "redelivered-saved")
                \cup Flag(crashes = 0 /\ q \in all, "twice")
DoSave(q) ==
  /\ saved' = q
  /\ savedMax' = IF q > savedMax THEN q ELSE savedMax
  /\ bad' = bad \cup Flag(q < saved, "saved-back") \cup Flag(\E i \in 1..q : log[i] = "A" /\ i \notin all, "saved-past-undelivered")

\* ---- subscriber process
Start == /\ phase = "down" /\ phase' = "replay" /\ cursor' = saved /\ base' = saved /\ inc' = <<>>
         /\ UNCHANGED <<log, saved, pend, pub, busLast, all, crashes, savedMax, bad>>
ReplayDeliver ==
  /\ phase = "replay" /\ pend = 0 /\ cursor < Len(log)
  /\ cursor' = cursor + 1
  /\ IF log[cursor + 1] = "A"
     THEN Deliver(cursor + 1) /\ pend' = cursor + 1
     ELSE UNCHANGED <<inc, all, bad, pend>>
  /\ UNCHANGED <<log, saved, phase, pub, busLast, base, crashes, savedMax>>
ReplaySave ==
  /\ phase = "replay" /\ pend # 0
  /\ DoSave(pend) /\ pend' = 0
  /\ UNCHANGED <<log, phase, cursor, pub, busLast, base, inc, all, crashes>>
ReplayEnd ==
  /\ phase = "replay" /\ pend = 0 /\ cursor = Len(log)
  /\ phase' = IF GapWindow THEN "ended" ELSE "live"
  /\ UNCHANGED <<log, saved, cursor, pend, pub, busLast, base, inc, all, crashes, savedMax, bad>>
GoLive == /\ phase = "ended" /\ phase' = "live"
          /\ UNCHANGED <<log, saved, cursor, pend, pub, busLast, base, inc, all, crashes, savedMax, bad>>

\* ---- publisher process (its synchronous live delivery runs on its goroutine)
PubAppend ==
  /\ pub.pc = "idle" /\ Len(log) < MaxLog
  /\ \E t \in {"A", "B"} :
       /\ log' = Append(log, t)
       /\ busLast' = Len(log) + 1
       /\ pub' = IF t = "A" /\ phase = "live" THEN [pc |-> "appended", pos |-> Len(log) + 1] ELSE Idle
  /\ UNCHANGED <<saved, phase, cursor, pend, base, inc, all, crashes, savedMax, bad>>
PubDeliver ==
  /\ pub.pc = "appended"
  /\ Deliver(pub.pos) /\ pub' = [pub EXCEPT !.pc = "delivered"]
  /\ UNCHANGED <<log, saved, phase, cursor, pend, busLast, base, crashes, savedMax>>
\* the store rejects the append: nothing is persisted, the event is still delivered live (C13); pos = 0
PubAppendFails ==
  /\ pub.pc = "idle" /\ phase = "live"
  /\ pub' = [pc |-> "delivered", pos |-> 0]
  /\ UNCHANGED <<log, saved, phase, cursor, pend, busLast, base, inc, all, crashes, savedMax, bad>>
PubSave ==
  /\ pub.pc = "delivered"
  /\ pub' = Idle
  /\ IF SaveBusLast THEN DoSave(busLast)
     ELSE IF pub.pos # 0 THEN DoSave(pub.pos)
     ELSE UNCHANGED <<saved, savedMax, bad>>          \* there is no offset to save for an event that was not persisted
  /\ UNCHANGED <<log, phase, cursor, pend, busLast, base, inc, all, crashes>>

\* ---- the process dies between any two steps; the next incarnation starts from log and saved
Crash ==
  /\ crashes < MaxCrash
  /\ crashes' = crashes + 1 /\ phase' = "down" /\ pend' = 0 /\ pub' = Idle /\ busLast' = 0
  /\ UNCHANGED <<log, saved, cursor, base, inc, all, savedMax, bad>>

Next == Start \/ ReplayDeliver \/ ReplaySave \/ ReplayEnd \/ GoLive \/ PubAppend \/ PubAppendFails \/ PubDeliver \/ PubSave \/ Crash
Spec == Init /\ [][Next]_vars

\* ------------------------------------------------------------ properties
InOrderOncePerRun == "order" \notin bad
OnlyUnsavedRedelivered == "redelivered-saved" \notin bad
ExactlyOnceWithoutCrash == "twice" \notin bad
SavedMonotone == "saved-back" \notin bad /\ "saved-past-undelivered" \notin bad
\* nothing is missing once the subscription is live and the publisher is idle
NoLoss == (phase = "live" /\ pub.pc = "idle") => \A q \in 1..Len(log) : log[q] = "A" => q \in all
=============================================================================
