-------------------------------- MODULE Locks --------------------------------
(***************************************************************************)
(* Every lock of ebu as a resource, every public operation as the sequence *)
(* of acquire / release steps it performs, with the points at which user   *)
(* code runs (handlers, filters, publish hooks, panic / persistence error  *)
(* handlers, replay callbacks) - where a re-entrant operation on the same  *)
(* bus may start on the same goroutine (C03, deadlock clause).             *)
(* RWMutexes are writer-preferring like Go's: a waiting writer blocks new  *)
(* readers, which is what makes "read lock held while user code runs"      *)
(* dangerous.  TLC's deadlock check decides the design.                    *)
(***************************************************************************)
EXTENDS Integers, Sequences, FiniteSets, TLC

CONSTANTS Threads,
          TopOps,        \* operations a goroutine may start at top level
          NestedOps,     \* operations user code may start from inside a callback
          MaxDepth,      \* nesting depth of re-entrant calls
          MaxOpsPerThread,
          SelfPublishInSeq,   \* TRUE admits the documented exception: a synchronous Sequential handler publishing
                              \* an event that is delivered back to itself
          HoldReadLockInDispatch  \* design mutant: the shard read lock is kept while handlers run

\* locks: shard of a type, the Sequential handler's mutex, bus.storeMu, the memory store's mutex,
\* the upcast registry's lock, the materializer's lock
ShardOf(t) == IF t = "T3" THEN "shard2" ELSE "shard1"      \* T1 and T2 share a shard
Locks == {"shard1", "shard2", "hmu", "storeMu", "memMu", "upcastMu", "matMu"}

VARIABLES readers,   \* [lock -> multiset of threads holding it for reading, as a function thread -> count]
          writer,    \* [lock -> thread or "none"]
          waitingW,  \* [lock -> set of threads waiting to write]
          prog,      \* [thread -> sequence of remaining steps]
          depth,     \* [thread -> current nesting depth]
          nops,      \* [thread -> operations started at top level]
          inSeq      \* [thread -> TRUE while inside the Sequential handler's body]
vars == <<readers, writer, waitingW, prog, depth, nops, inSeq>>

L(l, m) == [a |-> "lock", l |-> l, m |-> m]
U(l, m) == [a |-> "unlock", l |-> l, m |-> m]
User(k) == [a |-> "user", k |-> k]
Ret == [a |-> "ret"]
SeqIn == [a |-> "seqin"]
SeqOut == [a |-> "seqout"]

\* PublishContext on a persistent bus, type t; seq = its handler is Sequential
Publish(t, seq) ==
  <<User("beforeHook"),
    L("storeMu", "w"), L("memMu", "w"), U("memMu", "w"), U("storeMu", "w"), User("persistErrHandler"),
    L(ShardOf(t), "r")>>
  \o (IF HoldReadLockInDispatch THEN <<>> ELSE <<U(ShardOf(t), "r")>>)
  \o <<User("filter")>>
  \o (IF seq THEN <<L("hmu", "w"), SeqIn, User("handler"), SeqOut, U("hmu", "w")>> ELSE <<User("handler")>>)
  \o <<User("panicHandler")>>
  \o (IF HoldReadLockInDispatch THEN <<U(ShardOf(t), "r")>> ELSE <<>>)
  \o <<L(ShardOf(t), "w"), U(ShardOf(t), "w"), User("afterHook"), Ret>>

Program(o) ==
  IF o.op = "publish" THEN Publish(o.t, o.seq)
  ELSE IF o.op \in {"subscribe", "unsubscribe", "clear"} THEN <<L(ShardOf(o.t), "w"), U(ShardOf(o.t), "w"), Ret>>
  ELSE IF o.op = "clearall" THEN <<L("shard1", "w"), U("shard1", "w"), L("shard2", "w"), U("shard2", "w"), Ret>>
  ELSE IF o.op \in {"has", "count"} THEN <<L(ShardOf(o.t), "r"), U(ShardOf(o.t), "r"), Ret>>
  ELSE IF o.op = "replay" THEN <<L("memMu", "r"), U("memMu", "r"), User("replayCallback"), Ret>>
  ELSE IF o.op = "registerUpcast" THEN <<L("upcastMu", "w"), U("upcastMu", "w"), Ret>>
  ELSE IF o.op = "materialize" THEN <<L("matMu", "r"), U("matMu", "r"), L("matMu", "w"), U("matMu", "w"), Ret>>
  ELSE <<Ret>>

Init ==
  /\ readers = [l \in Locks |-> [t \in Threads |-> 0]]
  /\ writer = [l \in Locks |-> "none"]
  /\ waitingW = [l \in Locks |-> {}]
  /\ prog = [t \in Threads |-> <<>>]
  /\ depth = [t \in Threads |-> 0]
  /\ nops = [t \in Threads |-> 0]
  /\ inSeq = [t \in Threads |-> FALSE]

NoReaders(l) == \A t \in Threads : readers[l][t] = 0

Start(th) ==
  /\ prog[th] = <<>> /\ nops[th] < MaxOpsPerThread
  /\ \E o \in TopOps : prog' = [prog EXCEPT ![th] = Program(o)]
  /\ nops' = [nops EXCEPT ![th] = @ + 1] /\ depth' = [depth EXCEPT ![th] = 1]
  /\ UNCHANGED <<readers, writer, waitingW, inSeq>>

Step(th) ==
  /\ prog[th] # <<>>
  /\ LET s == Head(prog[th])  rest == Tail(prog[th]) IN
     \/ /\ s.a = "lock" /\ s.m = "r"
        /\ writer[s.l] = "none" /\ waitingW[s.l] = {}                 \* a waiting writer blocks new readers
        /\ readers' = [readers EXCEPT ![s.l][th] = @ + 1]
        /\ prog' = [prog EXCEPT ![th] = rest] /\ UNCHANGED <<writer, waitingW, depth, nops, inSeq>>
     \/ /\ s.a = "lock" /\ s.m = "w" /\ th \notin waitingW[s.l]
        /\ ~(writer[s.l] = "none" /\ NoReaders(s.l))                  \* must wait: announce the writer
        /\ waitingW' = [waitingW EXCEPT ![s.l] = @ \cup {th}]
        /\ UNCHANGED <<readers, writer, prog, depth, nops, inSeq>>
     \/ /\ s.a = "lock" /\ s.m = "w"
        /\ writer[s.l] = "none" /\ NoReaders(s.l)
        /\ writer' = [writer EXCEPT ![s.l] = th]
        /\ waitingW' = [waitingW EXCEPT ![s.l] = @ \ {th}]
        /\ prog' = [prog EXCEPT ![th] = rest] /\ UNCHANGED <<readers, depth, nops, inSeq>>
     \/ /\ s.a = "unlock" /\ s.m = "r"
        /\ readers' = [readers EXCEPT ![s.l][th] = @ - 1]
        /\ prog' = [prog EXCEPT ![th] = rest] /\ UNCHANGED <<writer, waitingW, depth, nops, inSeq>>
     \/ /\ s.a = "unlock" /\ s.m = "w"
        /\ writer' = [writer EXCEPT ![s.l] = "none"]
        /\ prog' = [prog EXCEPT ![th] = rest] /\ UNCHANGED <<readers, waitingW, depth, nops, inSeq>>
     \/ /\ s.a = "seqin" /\ inSeq' = [inSeq EXCEPT ![th] = TRUE]
        /\ prog' = [prog EXCEPT ![th] = rest] /\ UNCHANGED <<readers, writer, waitingW, depth, nops>>
     \/ /\ s.a = "seqout" /\ inSeq' = [inSeq EXCEPT ![th] = FALSE]
        /\ prog' = [prog EXCEPT ![th] = rest] /\ UNCHANGED <<readers, writer, waitingW, depth, nops>>
     \/ /\ s.a = "ret" /\ depth' = [depth EXCEPT ![th] = @ - 1]
        /\ prog' = [prog EXCEPT ![th] = rest] /\ UNCHANGED <<readers, writer, waitingW, nops, inSeq>>
     \/ /\ s.a = "user"                                               \* user code: returns, or calls back into the bus
        /\ \/ prog' = [prog EXCEPT ![th] = rest] /\ UNCHANGED depth
           \/ /\ depth[th] < MaxDepth
              /\ \E o \in NestedOps :
                   /\ (o.op = "publish" /\ o.seq /\ inSeq[th]) => SelfPublishInSeq
                   /\ prog' = [prog EXCEPT ![th] = Program(o) \o rest]
              /\ depth' = [depth EXCEPT ![th] = @ + 1]
        /\ UNCHANGED <<readers, writer, waitingW, nops, inSeq>>

AllDone == \A th \in Threads : prog[th] = <<>> /\ nops[th] = MaxOpsPerThread
Next == (\E th \in Threads : Start(th) \/ Step(th)) \/ (AllDone /\ UNCHANGED vars)
Spec == Init /\ [][Next]_vars

\* sanity: a write lock is exclusive
Exclusive == \A l \in Locks : writer[l] # "none" => NoReaders(l)
=============================================================================
