------------------------------- MODULE MCLog -------------------------------
(***************************************************************************)
(* Model-level theorem of the store contract: a reader that chains reads   *)
(* with arbitrary limits, resuming from the returned next token or from    *)
(* the token of any returned event, sees the log without gap and without   *)
(* repeat - for every store that satisfies Log.tla (the store's choices:   *)
(* fresh or reused tokens, partial pages) are explored exhaustively.       *)
(***************************************************************************)
EXTENDS Log

CONSTANTS Events, Tokens, MaxLen, Limits

VARIABLES seen,    \* [Stores -> Seq(event id)] what the chained reader has collected
          cursor   \* [Stores -> token] where it resumes

mvars == <<lvars, seen, cursor>>

MCInit == LogInit /\ seen = [s \in Stores |-> <<>>] /\ cursor = [s \in Stores |-> Oldest]

DoAppend(s) ==
  /\ Len(log[s]) < MaxLen
  /\ \E e \in Events, tok \in Tokens : AppendEv(s, e, tok, TRUE)
  /\ UNCHANGED <<seen, cursor>>

\* the store answers a read from the reader's cursor; the reader then resumes either from next or from
\* the token of the last event it decided to keep (any prefix of the page)
DoRead(s) ==
  \E limit \in Limits :
    LET p0 == Pos(s, cursor[s])
        hi == IF limit > 0 THEN Min(p0 + limit, Len(log[s])) ELSE Len(log[s])
        full == hi - p0
        lens == IF s \in Partial /\ limit <= 0 /\ full >= 1 THEN 1..full ELSE {full} IN
    \E n \in lens :
      \E toks \in [1..n -> Tokens], next \in Tokens \cup {Oldest} :
        LET evs == [i \in 1..n |-> [id |-> log[s][p0 + i], tok |-> toks[i]]] IN
        /\ ReadEv(s, cursor[s], limit, evs, next)
        /\ \E keep \in 0..n :
             /\ seen' = [seen EXCEPT ![s] = @ \o [i \in 1..keep |-> evs[i].id]]
             /\ cursor' = [cursor EXCEPT ![s] = IF keep = n THEN next ELSE IF keep = 0 THEN @ ELSE evs[keep].tok]

MCNext == \E s \in Stores : DoAppend(s) \/ DoRead(s)
MCSpec == MCInit /\ [][MCNext]_mvars

\* the reader has seen exactly the log up to its cursor: no gap, no repeat
NoGapNoRepeat == \A s \in Stores : /\ Known(s, cursor[s])
                                   /\ seen[s] = SubSeq(log[s], 1, Pos(s, cursor[s]))
=============================================================================
