SPECIFICATION TraceSpec
CONSTANTS
  FifoLock = FALSE
  Types = {"E00","E01","E02","E03","E04","E05","E06","E07","E08","E09","E10","E11","E12","E13","E14","E15","E16","E17","E18","E19","E20","E21","E22","E23","E24","E25","E26","E27","E28","E29","E30","E31","E32","E33","E34","E35","E36","E37","E38","E39"}
  Procs = {1, 2, 3, 4, 5, 6, 7, 8}
CONSTRAINT HighWater
POSTCONDITION Report
CHECK_DEADLOCK FALSE
