SPECIFICATION MCSpec
CONSTANTS
  Stores = {"s1"}
  Oldest = ""
  Partial = {"s1"}
  Events = {1, 2, 3}
  Tokens = {"a", "b", "c", "d"}
  MaxLen = 3
  Limits = {0, 1, 2}
  OpaqueEvToks = {}
INVARIANTS LogTypeOK Isolation AppendUnique NoGapNoRepeat
CHECK_DEADLOCK FALSE
