---------------------------- MODULE MCBus_c02 ----------------------------
(* C02/C04: concurrent drivers; registry operations at call / linearize / return granularity *)
EXTENDS MCBus
P(once, async, filt, accept) ==
  [once |-> once, async |-> async, seq |-> FALSE, filt |-> filt, accept |-> accept, panics |-> FALSE, body |-> <<>>]
c02Profiles == { P(FALSE, FALSE, FALSE, {}), P(TRUE, FALSE, FALSE, {}) }
c04Profiles == { P(TRUE, FALSE, FALSE, {}), P(TRUE, FALSE, TRUE, {"a"}), P(TRUE, TRUE, FALSE, {}) }
noCfg == {[obs |-> FALSE, before |-> FALSE, beforeCtx |-> FALSE, after |-> FALSE, afterCtx |-> FALSE, panicH |-> FALSE, closer |-> FALSE]}
=============================================================================
