SPECIFICATION MCSpec
CONSTANTS
  FifoLock = TRUE
  Types = {"T1"}
  Procs = {1}
  Fns = {"f0"}
  Vals = {"a"}
  Ctxs = {}
  PubCtxs = {"bg"}
  Profiles <- c05Profiles
  Cfgs <- c05Cfgs
  TopKinds = {"sub", "pub", "wait", "count"}
  Roles <- allRoles
  MaxReg = 4
  MaxPub = 5
  MaxTop = 9
  Mutant = "none"
INVARIANTS Emit
CHECK_DEADLOCK FALSE
