------------------------------ MODULE MCUpcast ------------------------------
EXTENDS Upcast, Json
CONSTANTS MaxOps, MaxEdges, AllowEmpty
VARIABLES nops, hist
mvars == <<uvars, nops, hist>>

Srcs == IF AllowEmpty THEN AllNames ELSE Names

MCInit == UInit /\ nops = 0 /\ hist = <<>>
DoReg == \E from \in Srcs, to \in Srcs, isNil \in {FALSE}, ret \in Names \cup {"same"}, fails \in BOOLEAN :
           LET r == IF ret = "same" THEN to ELSE ret
               res == IF Rejected(from, to, isNil) THEN "err" ELSE "ok" IN
           /\ Register(from, to, isNil, nops + 1, r, fails, res)
           /\ hist' = Append(hist, [op |-> "reg", from |-> from, to |-> to, nil |-> isNil, ret |-> r, fails |-> fails])
DoRegNil == \E from \in Names, to \in Names :
           /\ Register(from, to, TRUE, nops + 1, to, FALSE, "err")
           /\ hist' = Append(hist, [op |-> "reg", from |-> from, to |-> to, nil |-> TRUE, ret |-> to, fails |-> FALSE])
DoClear == Clear /\ hist' = Append(hist, [op |-> "clear"])
DoClearType == \E n \in Names : ClearType(n) /\ hist' = Append(hist, [op |-> "cleartype", t |-> n])
DoApply == \E t \in Names : UNCHANGED edges /\ hist' = Append(hist, [op |-> "apply", t |-> t])

NEdges == LET RECURSIVE Sum(_)
              Sum(S) == IF S = {} THEN 0 ELSE LET n == CHOOSE x \in S : TRUE IN Len(edges[n]) + Sum(S \ {n})
          IN Sum(AllNames)
MCNext == /\ (MaxOps = 0 \/ nops < MaxOps) /\ nops' = nops + 1
          /\ ((NEdges < MaxEdges /\ DoReg) \/ DoRegNil \/ DoClear \/ DoClearType \/ DoApply)
MCSpec == MCInit /\ [][MCNext]_mvars
View == [n \in AllNames |-> [i \in 1..Len(edges[n]) |-> [to |-> edges[n][i].to, ret |-> edges[n][i].ret, fails |-> edges[n][i].fails]]]
Emit == MaxOps = 0 \/ nops < MaxOps \/ PrintT(ToJson(hist))
=============================================================================
