---------------------------- MODULE MCBus_c07 ----------------------------
(* C06/C07: asynchronous and sequential dispatch, Wait, Shutdown *)
EXTENDS MCBus
P(once, async, seq, body) ==
  [once |-> once, async |-> async, seq |-> seq, filt |-> FALSE, accept |-> {}, panics |-> FALSE, body |-> body]
c07Profiles == { P(FALSE, TRUE, TRUE, <<>>), P(FALSE, FALSE, TRUE, <<>>) }
c06Profiles == { P(FALSE, TRUE, FALSE, <<>>),
                 P(FALSE, TRUE, FALSE, <<[op |-> "pub", t |-> "T2", val |-> "a", ctx |-> "bg"]>>),
                 P(TRUE, TRUE, TRUE, <<>>) }
c06Roles == [g \in {1, 2} |-> IF g = 1 THEN {"sub", "pub", "wait"} ELSE {"shutdown", "cancel"}]
noCfg == {[obs |-> FALSE, before |-> FALSE, beforeCtx |-> FALSE, after |-> FALSE, afterCtx |-> FALSE, panicH |-> FALSE, closer |-> FALSE]}
closerCfg == {[obs |-> FALSE, before |-> FALSE, beforeCtx |-> FALSE, after |-> FALSE, afterCtx |-> FALSE, panicH |-> FALSE, closer |-> TRUE]}
=============================================================================
