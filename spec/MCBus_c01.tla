---------------------------- MODULE MCBus_c01 ----------------------------
(* C01: one driver goroutine, re-entrant handler bodies, two types sharing routing *)
EXTENDS MCBus
P(once, async, filt, accept, body) ==
  [once |-> once, async |-> async, seq |-> FALSE, filt |-> filt, accept |-> accept, panics |-> FALSE, body |-> body]
Plain == P(FALSE, FALSE, FALSE, {}, <<>>)
c01Profiles == {
  Plain,
  P(TRUE,  FALSE, FALSE, {}, <<>>),
  P(FALSE, TRUE,  FALSE, {}, <<>>),
  P(FALSE, FALSE, TRUE, {"a"}, <<>>),
  P(TRUE,  FALSE, TRUE, {"b"}, <<>>),
  P(FALSE, FALSE, FALSE, {}, <<[op |-> "unsub", t |-> "T1", fn |-> "f0"]>>),
  P(FALSE, FALSE, FALSE, {}, <<[op |-> "unsub", t |-> "T1", fn |-> "f1"]>>),
  P(FALSE, FALSE, FALSE, {}, <<[op |-> "clear", t |-> "T1"]>>),
  P(FALSE, FALSE, FALSE, {}, <<[op |-> "clearall"]>>),
  P(TRUE,  FALSE, FALSE, {}, <<[op |-> "pub", t |-> "T1", val |-> "a", ctx |-> "bg"]>>),
  P(FALSE, FALSE, FALSE, {}, <<[op |-> "sub", t |-> "T1", fn |-> "f1", pr |-> Plain]>>),
  P(FALSE, TRUE,  FALSE, {}, <<[op |-> "count", t |-> "T1"]>>),
  P(TRUE,  FALSE, FALSE, {}, <<[op |-> "sub", t |-> "T1", fn |-> "f0", pr |-> Plain]>>) }
c01Cfgs == {[obs |-> FALSE, before |-> FALSE, beforeCtx |-> FALSE, after |-> FALSE, afterCtx |-> FALSE, panicH |-> FALSE, closer |-> FALSE]}
=============================================================================
