SPECIFICATION MCSpec
CONSTANTS
  FifoLock = TRUE
  Types = {"T1", "T2"}
  Procs = {1, 2}
  Fns = {"f0"}
  Vals = {"a"}
  Ctxs = {"c1"}
  PubCtxs = {"bg"}
  Profiles <- c06Profiles
  Cfgs <- closerCfg
  TopKinds = {"sub", "pub", "wait", "shutdown", "cancel"}
  Roles <- c06Roles
  MaxReg = 2
  MaxPub = 2
  MaxTop = 0
  Mutant = "addinside"
INVARIANTS TypeOK AtMostOncePerPublish MustNotDeliver MustDeliver NoOverlap WaitCovers CloseOnlyWhenDrained OnceAtMostOnce
CHECK_DEADLOCK FALSE
VIEW View
