SPECIFICATION MCSpec
CONSTANTS
  FifoLock = TRUE
  Types = {"T1", "T2"}
  Procs = {1}
  Fns = {"f0", "f1"}
  Vals = {"a", "b"}
  Ctxs = {}
  PubCtxs = {"bg"}
  Profiles <- c01Profiles
  Cfgs <- c01Cfgs
  TopKinds = {"sub", "unsub", "clear", "clearall", "count", "pub", "wait"}
  Roles <- allRoles
  MaxReg = 4
  MaxPub = 5
  MaxTop = 9
  Mutant = "none"
INVARIANTS Emit
CHECK_DEADLOCK FALSE
