----------------------------- MODULE ReplayTrace -----------------------------
(* Trace validation of bus.Replay runs on the real stores.  One run is: start (the events due, i.e.
   the log after the offset, as established by the harness through direct store reads), one line per
   callback invocation (with what the callback did), a line when the harness' store wrapper injected
   a store failure, and the return.  The acceptor is the property of C11 as an automaton; that the
   algorithm of persist.go satisfies it over any contract-abiding store is what Replay.tla model-checks. *)
EXTENDS Integers, Sequences, TLC, Json, IOUtils

Trace == ndJsonDeserialize(IOEnv.TRACE)
VARIABLES l, due, i, faulted, open
tvars == <<l, due, i, faulted, open>>

EventStep(ev) ==
  \/ /\ ev.e = "start" /\ ~open
     /\ due' = ev.due /\ i' = 0 /\ open' = TRUE
     /\ faulted' = (ev.precancel /\ Len(ev.due) > 0)
  \/ /\ ev.e = "cb" /\ open
     /\ i < Len(due) /\ ev.id = due[i + 1]                \* exactly the next due event: no gap, no repeat, log order
     /\ i' = i + 1
     /\ faulted' = (faulted \/ ev.fault = "err" \/ (ev.fault = "cancel" /\ i + 1 < Len(due)))
     /\ UNCHANGED <<due, open>>
  \/ /\ ev.e = "storefault" /\ open
     /\ faulted' = TRUE /\ UNCHANGED <<due, i, open>>
  \/ /\ ev.e = "ret" /\ open
     /\ ev.nil => i = Len(due)                            \* nil only after all of them were delivered
     /\ faulted => ~ev.nil                                \* a failure or cancellation is reported
     /\ ev.appends = 0 /\ ev.handlers = 0                 \* replaying neither appends nor invokes subscribed handlers
     /\ open' = FALSE /\ UNCHANGED <<due, i, faulted>>

TraceInit == l = 1 /\ due = <<>> /\ i = 0 /\ faulted = FALSE /\ open = FALSE /\ TLCSet(1, 1)
TraceNext == l <= Len(Trace) /\ EventStep(Trace[l]) /\ l' = l + 1
TraceSpec == TraceInit /\ [][TraceNext]_tvars
HighWater ==
  /\ IF l > TLCGet(1) THEN TLCSet(1, l) ELSE TRUE
  /\ l <= Len(Trace) \/ (PrintT("TRACE_ACCEPTED") /\ TLCSet("exit", TRUE))
Report == PrintT(<<"HIGHWATER", TLCGet(1)>>)
=============================================================================
