SPECIFICATION MCSpec
CONSTANTS
  Types = {"T1", "T2"}
  Procs = {1}
  Fns = {"f1", "f2", "g1"}
  FnType <- c01FnType
  Vals = {"a", "b"}
  Ctxs = {}
  Profiles <- c01Profiles
  Cfgs <- c01Cfgs
  TopKinds = {"sub", "unsub", "clear", "clearall", "count", "pub", "wait"}
  MaxReg = 2
  MaxPub = 2
  Mutant = "none"
INVARIANTS TypeOK AtMostOncePerPublish MustNotDeliver MustDeliver OnceAtMostOnce OnceRetired WaitCovers
CHECK_DEADLOCK FALSE
VIEW View
