-------------------------------- MODULE Log --------------------------------
(***************************************************************************)
(* The store contract of ebu (EventStore / EventStoreStreamer /            *)
(* SubscriptionStore): one append-only, resumable log per store.           *)
(*                                                                         *)
(* Offsets are opaque tokens.  `pos` is specification state: it records    *)
(* which log position every token the store has ever handed out denotes.   *)
(* Whatever token the store returns (Append result, an event's offset in   *)
(* a read, the next offset of a read, LoadOffset's result) is either bound *)
(* already - then it must denote the right position - or fresh, and is     *)
(* then bound to that position; resuming from any such token must read     *)
(* exactly the log after its position.                                     *)
(***************************************************************************)
EXTENDS Integers, Sequences, FiniteSets, TLC

CONSTANTS Stores,     \* store instances (created separately: they must not see each other's events)
          Oldest,     \* the token that denotes the beginning ("" in ebu)
          Partial,    \* set of stores whose unlimited Read may return a non-empty prefix (server-paged stores)
          OpaqueEvToks \* set of stores whose per-event offsets are not examined (durable-streams main runs: its
                      \* synthesised per-event offsets are a recorded finding, checked by a dedicated probe)

VARIABLES log,        \* [Stores -> Seq(event id)]
          pos,        \* [Stores -> [token -> 0..Len(log)]]
          appended,   \* [Stores -> set of tokens returned by Append]
          saved       \* [Stores -> [subscription id -> token]]

lvars == <<log, pos, appended, saved>>

Min(a, b) == IF a < b THEN a ELSE b

LogInit ==
  /\ log = [s \in Stores |-> <<>>]
  /\ pos = [s \in Stores |-> <<>>]
  /\ appended = [s \in Stores |-> {}]
  /\ saved = [s \in Stores |-> <<>>]

Known(s, t) == t = Oldest \/ t \in DOMAIN pos[s]
Pos(s, t) == IF t = Oldest THEN 0 ELSE pos[s][t]
AllEvents == UNION {{log[s][i] : i \in 1..Len(log[s])} : s \in Stores}

\* Append(s, e): the store returns token tok; gt = tok is lexicographically greater than every token
\* Append has returned for this store before (computed by the harness, byte-wise)
AppendEv(s, e, tok, gt) ==
  /\ e \notin AllEvents
  /\ tok # Oldest /\ tok \notin DOMAIN pos[s]          \* unique
  /\ gt                                                \* increases with append order
  /\ log' = [log EXCEPT ![s] = Append(@, e)]
  /\ pos' = [pos EXCEPT ![s] = (tok :> Len(log[s]) + 1) @@ @]
  /\ appended' = [appended EXCEPT ![s] = @ \cup {tok}]
  /\ UNCHANGED saved

\* binding of the tokens a read hands out: evs is a sequence of [id, tok]; the i-th returned event sits
\* at position p0 + i; next denotes the position of the last returned event
BindRead(s, p0, evs, next, withNext) ==
  LET n == Len(evs)
      chk == s \notin OpaqueEvToks
      toks == IF chk THEN {evs[i].tok : i \in 1..n} ELSE {}
      fresh == {t \in toks : ~Known(s, t)}
      at(t) == p0 + (CHOOSE i \in 1..n : evs[i].tok = t) IN
  /\ chk => \A i \in 1..n : evs[i].tok # Oldest
  /\ chk => \A i, j \in 1..n : i # j => evs[i].tok # evs[j].tok
  /\ chk => \A i \in 1..n : Known(s, evs[i].tok) => pos[s][evs[i].tok] = p0 + i
  /\ withNext => (Known(s, next) /\ next \notin fresh => Pos(s, next) = p0 + n)
  /\ withNext => (next \in fresh => at(next) = p0 + n)
  /\ pos' = [pos EXCEPT ![s] =
        [t \in DOMAIN @ \cup fresh \cup (IF withNext /\ next # Oldest THEN {next} ELSE {}) |->
           IF t \in DOMAIN @ THEN @[t] ELSE IF t \in fresh THEN at(t) ELSE p0 + n]]

\* Read(s, from, limit) returned evs and next
ReadEv(s, from, limit, evs, next) ==
  /\ Known(s, from)
  /\ LET p0 == Pos(s, from)
         hi == IF limit > 0 THEN Min(p0 + limit, Len(log[s])) ELSE Len(log[s])
         want == SubSeq(log[s], p0 + 1, hi)
         got == [i \in 1..Len(evs) |-> evs[i].id] IN
       /\ \/ got = want
          \/ /\ s \in Partial /\ limit <= 0 /\ Len(got) >= 1 /\ Len(got) < Len(want)
             /\ got = SubSeq(want, 1, Len(got))
       /\ BindRead(s, p0, evs, next, TRUE)
  /\ UNCHANGED <<log, appended, saved>>

\* ReadStream(s, from) yielded evs and ended without error
Stream(s, from, evs) ==
  /\ Known(s, from)
  /\ LET p0 == Pos(s, from) IN
       /\ [i \in 1..Len(evs) |-> evs[i].id] = SubSeq(log[s], p0 + 1, Len(log[s]))
       /\ BindRead(s, p0, evs, Oldest, FALSE)
  /\ UNCHANGED <<log, appended, saved>>

Save(s, id, tok) ==
  /\ Known(s, tok)
  /\ saved' = [saved EXCEPT ![s] = (id :> tok) @@ @]
  /\ UNCHANGED <<log, pos, appended>>

\* LoadOffset(s, id) returned tok: it denotes the position of the token saved last (Oldest if none)
Load(s, id, tok) ==
  LET sv == IF id \in DOMAIN saved[s] THEN saved[s][id] ELSE Oldest IN
  /\ IF Known(s, tok) THEN Pos(s, tok) = Pos(s, sv) /\ pos' = pos
                      ELSE pos' = [pos EXCEPT ![s] = (tok :> Pos(s, sv)) @@ @]
  /\ UNCHANGED <<log, appended, saved>>

\* An operation that returned an error - the driver only provokes that with a context that is already cancelled -
\* has had no effect: nothing appended, no token handed out, no offset saved.
Refused == UNCHANGED lvars

\* ------------------------------------------------------------ properties
LogTypeOK ==
  \A s \in Stores : /\ \A t \in DOMAIN pos[s] : pos[s][t] \in 0..Len(log[s])
                    /\ appended[s] \subseteq DOMAIN pos[s]
\* separately created stores do not share events
Isolation == \A s1, s2 \in Stores : s1 # s2 =>
               {log[s1][i] : i \in 1..Len(log[s1])} \cap {log[s2][i] : i \in 1..Len(log[s2])} = {}
\* Append tokens are unique per position
AppendUnique == \A s \in Stores : \A t1, t2 \in appended[s] : t1 # t2 => pos[s][t1] # pos[s][t2]
=============================================================================
