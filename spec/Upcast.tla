------------------------------- MODULE Upcast -------------------------------
(***************************************************************************)
(* The upcaster registry of ebu (upcast.go): registration with its         *)
(* validation and cycle check, clearing, and the application of upcast     *)
(* chains to a stored event (C16, C17).                                    *)
(*                                                                         *)
(* Raw upcasters are adversarial: the function of an upcaster registered   *)
(* from -> to returns some type `ret` (not necessarily `to`) and may fail. *)
(* Data is abstracted to the sequence of upcaster ids applied so far.      *)
(***************************************************************************)
EXTENDS Integers, Sequences, FiniteSets, TLC

CONSTANTS Names,      \* non-empty type names
          Empty       \* the empty name ""

VARIABLES edges       \* [name -> Seq([to, uid, ret, fails])]   the registry, in registration order per source
uvars == <<edges>>

AllNames == Names \cup {Empty}
UInit == edges = [n \in AllNames |-> <<>>]

Targets(n) == {edges[n][i].to : i \in 1..Len(edges[n])}

\* ---- the depth-first search of hasCycleDFS, transcribed
RECURSIVE DFS(_, _, _)
DFS(current, target, visited) ==   \* returns [found, visited]
  IF current = target THEN [found |-> TRUE, visited |-> visited]
  ELSE IF current \in visited THEN [found |-> FALSE, visited |-> visited]
  ELSE LET RECURSIVE Walk(_, _)
           Walk(i, vis) ==
             IF i > Len(edges[current]) THEN [found |-> FALSE, visited |-> vis]
             ELSE LET r == DFS(edges[current][i].to, target, vis) IN
                  IF r.found THEN r ELSE Walk(i + 1, r.visited)
       IN Walk(1, visited \cup {current})
WouldCreateCycle(from, to) == DFS(to, from, {}).found

\* ---- reachability computed independently (transitive closure by iteration)
RECURSIVE Closure(_)
Closure(S) == LET T == S \cup UNION {Targets(n) : n \in S} IN IF T = S THEN S ELSE Closure(T)
Reaches(a, b) == b \in Closure({a})       \* reflexive-transitive

Rejected(from, to, isNil) == from = Empty \/ to = Empty \/ from = to \/ isNil \/ Reaches(to, from)

\* RegisterUpcastFunc(from, to, fn) returned res ("ok" | "err")
Register(from, to, isNil, uid, ret, fails, res) ==
  /\ res = (IF Rejected(from, to, isNil) THEN "err" ELSE "ok")
  /\ edges' = IF res = "ok" THEN [edges EXCEPT ![from] = Append(@, [to |-> to, uid |-> uid, ret |-> ret, fails |-> fails])]
              ELSE edges
Clear == edges' = [n \in AllNames |-> <<>>]
ClearType(n) == edges' = [edges EXCEPT ![n] = <<>>]

\* ---- apply: follow the first upcaster of the current type until a type without upcaster is reached
\* result: [type, path, failed (an upcaster function failed), loop (a loop was detected)]
RECURSIVE ApplyFrom(_, _, _)
ApplyFrom(cur, path, applied) ==
  LET app == applied \cup {cur} IN
  IF cur \notin AllNames \/ edges[cur] = <<>> THEN [type |-> cur, path |-> path, failed |-> FALSE, loop |-> FALSE]
  ELSE LET up == edges[cur][1] IN
       IF up.to \in app THEN [type |-> cur, path |-> path, failed |-> FALSE, loop |-> TRUE]
       ELSE IF up.fails THEN [type |-> cur, path |-> path, failed |-> TRUE, loop |-> FALSE]
       ELSE IF up.ret \in app THEN [type |-> up.ret, path |-> Append(path, up.uid), failed |-> FALSE, loop |-> TRUE]
       ELSE ApplyFrom(up.ret, Append(path, up.uid), app)
ApplyResult(t) == ApplyFrom(t, <<>>, {})

\* ------------------------------------------------------------ properties
\* the cycle check of the code agrees with reachability
DFSAgrees == \A a, b \in Names : WouldCreateCycle(a, b) = Reaches(b, a)
\* the declared graph is acyclic after any sequence of registrations and clears
Acyclic == \A a \in Names : \A b \in Targets(a) : ~Reaches(b, a)
\* applying terminates within |names| + 1 steps whatever the functions return (the recursion above is
\* well-founded: every step adds a name to `applied`)
ApplyTerminates == \A t \in Names : Len(ApplyResult(t).path) <= Cardinality(AllNames) + 1
=============================================================================
