-------------------------------- MODULE Bus --------------------------------
(***************************************************************************)
(* ebu's in-process event bus: registry, publish/dispatch, once, async,    *)
(* sequential, filters, context cancellation, publish hooks, panic         *)
(* recovery, observability callbacks, Wait and Shutdown, and - on a bus    *)
(* with a store - the persistence step of every publish (persist.go).      *)
(*                                                                         *)
(* Shape: one action per critical section or user-code callback of         *)
(* event_bus.go.  Goroutines (driver goroutines and the goroutines ebu     *)
(* spawns for Async handlers) each own a call stack of frames, so that     *)
(* handlers calling back into the bus run on the caller's goroutine, as    *)
(* in Go.  Actions are parametric (goroutine + arguments): the model-      *)
(* checking modules (MCBus*.tla) pick arguments from small constant sets,  *)
(* the trace module (BusTrace.tla) takes them from an execution recorded   *)
(* from the real code.                                                     *)
(*                                                                         *)
(* Observable actions (one trace line each) are marked (E); all others     *)
(* are internal steps of ebu that the trace module lets TLC place.         *)
(***************************************************************************)
EXTENDS Integers, Sequences, FiniteSets, TLC

CONSTANTS Types,     \* event type names
          Procs,     \* driver goroutines: small positive integers (every other member of DOMAIN stack is an async task)
          FifoLock   \* TRUE: the mutex of an Async+Sequential registration is handed out in publish order (a ticket lock)
                     \* FALSE: any waiting invocation may take it (sync.Mutex, as ebu does today - defect D2)

VARIABLES
  cfg,        \* options the bus was created with: [obs, before, beforeCtx, after, afterCtx, panicH, closer : BOOLEAN],
              \* optionally store, perrH (a store that records appends, a persistence error handler)
  reg,        \* [Types -> Seq(RegId)]    the registry, per type, in subscription order
  attr,       \* [RegId -> record]        immutable attributes of every registration ever made
  fired,      \* set of RegIds            once-claims taken (internalHandler.executed = 1)
  seqHolder,  \* [RegId -> goroutine]     who is inside a Sequential handler (partial function)
  cancelled,  \* set of context ids
  stack,      \* [goroutine -> Seq(frame)]
  closed,     \* number of store Close calls made by Shutdown
  pubs,       \* [pub -> [g, t, val, ctx]]   the publishes that have been called and have not returned
  npub,       \* number of publishes called so far
  gh          \* ghost record: real-time bookkeeping for the properties (never read by enabling conditions)

vars == <<cfg, reg, attr, fired, seqHolder, cancelled, stack, closed, pubs, npub, gh>>

None == "none"
Bg == "bg"                       \* context.Background(): cannot be cancelled

\* ---------------------------------------------------------------- helpers
Range(s) == {s[i] : i \in 1..Len(s)}
RemoveAt(s, i) == SubSeq(s, 1, i - 1) \o SubSeq(s, i + 1, Len(s))
FirstIdx(s, P(_)) ==
  IF \E i \in 1..Len(s) : P(s[i])
  THEN CHOOSE i \in 1..Len(s) : P(s[i]) /\ \A j \in 1..(i - 1) : ~P(s[j])
  ELSE 0
Without(s, S) == SelectSeq(s, LAMBDA x : x \notin S)
Restrict(f, S) == [x \in DOMAIN f \cap S |-> f[x]]

TaskId(p, r) == p * 1000 + r      \* goroutine id of the async invocation of r for p (ids are small)

Gs == DOMAIN stack
IsTask(g) == g \notin Procs
Tasks == {g \in Gs : IsTask(g)}
InFlight == Cardinality(Tasks)          \* EventBus.wg
Top(g) == stack[g][Len(stack[g])]
Below(g) == SubSeq(stack[g], 1, Len(stack[g]) - 1)

BeforeHooks == (IF cfg.before THEN {"before"} ELSE {}) \cup (IF cfg.beforeCtx THEN {"beforeCtx"} ELSE {})
AfterHooks  == (IF cfg.after THEN {"after"} ELSE {}) \cup (IF cfg.afterCtx THEN {"afterCtx"} ELSE {})

IsCancelled(c) == c \in cancelled
HasStore == "store" \in DOMAIN cfg /\ cfg.store          \* WithStore: every publish is appended to the store first
HasPErrH == "perrH" \in DOMAIN cfg /\ cfg.perrH          \* WithPersistenceErrorHandler

\* ------------------------------------------------- frame normalisation
\* A publish frame is [k |-> "pub", pub, t, val, ctx, n, pc, todo, snap, i, retire, claimed, pre].
\* After each step the frame is moved to the next point at which something happens.
AfterAfter(f)  == IF cfg.obs THEN [f EXCEPT !.pc = "obs1"] ELSE [f EXCEPT !.pc = "ret"]
AfterRetire(f) == IF AfterHooks # {} THEN [f EXCEPT !.pc = "after", !.todo = AfterHooks] ELSE AfterAfter(f)
LoopNorm(f) ==
  IF f.i > Len(f.snap)
  THEN IF f.retire # {} THEN [f EXCEPT !.pc = "retire"] ELSE AfterRetire(f)
  ELSE LET a == attr[f.snap[f.i]] IN
       [f EXCEPT !.pc = IF a.filt THEN "filter" ELSE IF a.once THEN "claim" ELSE "dispatch"]
AfterFilterPass(f) == [f EXCEPT !.pc = IF attr[f.snap[f.i]].once THEN "claim" ELSE "dispatch"]
NextHandler(f) == LoopNorm([f EXCEPT !.i = @ + 1])
\* persistence sits between the before hooks and the snapshot of the handler list (persistEvent):
\*   OnPersistStart ("pers0", with observability) - Append under storeMu ("append") - OnPersistComplete ("pers1") -
\*   persistence error handler ("perrh", after a failed append, if one is installed)
AfterPersist(f) == IF ~f.pok /\ HasPErrH THEN [f EXCEPT !.pc = "perrh"] ELSE [f EXCEPT !.pc = "snap"]
AfterAppend(f)  == IF cfg.obs THEN [f EXCEPT !.pc = "pers1"] ELSE AfterPersist(f)
AfterBefore(f)  == IF HasStore THEN [f EXCEPT !.pc = IF cfg.obs THEN "pers0" ELSE "append"] ELSE [f EXCEPT !.pc = "snap"]
AfterObs0(f) == IF BeforeHooks # {} THEN [f EXCEPT !.pc = "before", !.todo = BeforeHooks] ELSE AfterBefore(f)
AfterStart(f) == IF cfg.obs THEN [f EXCEPT !.pc = "obs0"] ELSE AfterObs0(f)

\* An invocation frame is [k |-> "inv", reg, pub, async, pc, panicked, pg, n, ctx]
\* (pg, n, ctx: publishing goroutine, publish sequence number and context of the publish it serves).
InvAfterExit(f) ==
  IF f.panicked /\ cfg.panicH THEN [f EXCEPT !.pc = "panich"]
  ELSE IF cfg.obs THEN [f EXCEPT !.pc = "hdone"] ELSE [f EXCEPT !.pc = "end"]
InvAfterPanicH(f) == IF cfg.obs THEN [f EXCEPT !.pc = "hdone"] ELSE [f EXCEPT !.pc = "end"]
InvAfterHStart(f) == [f EXCEPT !.pc = "enter"]
InvStart(f) == IF cfg.obs THEN [f EXCEPT !.pc = "hstart"] ELSE InvAfterHStart(f)
NewInv(r, p, async, pg, n, ctx) ==
  [k |-> "inv", reg |-> r, pub |-> p, async |-> async, pc |-> "new", panicked |-> FALSE, pg |-> pg, n |-> n, ctx |-> ctx,
   live |-> ~IsCancelled(ctx)]       \* live: the context was not cancelled when the invocation was dispatched

\* An asynchronous invocation whose context can be cancelled sits at pc "tctx" from its dispatch until either its first
\* callback is observed - it passed the goroutine's context check, which (cancellation being permanent) is possible
\* exactly if the context was live at dispatch - or a Wait / Shutdown needs it gone, which is possible exactly if the
\* context is cancelled by then (the goroutine has skipped the handler, or will).  The choice is thereby made when
\* the trace forces it, not guessed in advance.
Started(f) == IF f.pc = "tctx" THEN InvStart(f) ELSE f
MayStart(f) == f.pc = "tctx" => f.live
Skippable(g) == IsTask(g) /\ Top(g).pc = "tctx" /\ IsCancelled(Top(g).ctx)
\* what Wait / Shutdown have to wait for
Pending == {g \in Tasks : ~Skippable(g)}

SetTop(g, f) == stack' = [stack EXCEPT ![g] = Append(Below(g), f)]
Push(g, f) == stack' = [stack EXCEPT ![g] = Append(@, f)]
SetTopPush(g, f1, f2) == stack' = [stack EXCEPT ![g] = Append(Append(Below(g), f1), f2)]

\* The top frame f of goroutine g is an invocation frame that has just been advanced.  If it is over
\* (pc = "end") the invocation ends in the same step: a synchronous one returns into the publish loop of
\* the frame below, an asynchronous one ends its goroutine (wg.Done).  Ending as early as possible is the
\* most permissive choice for Wait/Shutdown and loses no behaviour: nothing else is observable between
\* the last callback of an invocation and its end.
AfterInvStep(g, f) ==
  IF f.pc # "end" THEN stack' = [stack EXCEPT ![g] = Append(Below(g), f)]
  ELSE IF f.async THEN stack' = [h \in Gs \ {g} |-> stack[h]]
  ELSE stack' = [stack EXCEPT ![g] = Append(SubSeq(@, 1, Len(@) - 2), NextHandler(@[Len(@) - 1]))]

\* A goroutine may issue an API call when it is an idle driver or inside a handler body.
CanCall(g) == /\ g \in Gs
              /\ \/ stack[g] = <<>> /\ g \in Procs
                 \/ stack[g] # <<>> /\ Top(g).k = "inv" /\ Top(g).pc = "body"

\* tasks whose handler body has not started yet
WaitingTasks == {k \in Tasks : Top(k).pc \in {"tctx", "hstart", "enter"} /\ ~Skippable(k)}

(***************************************************************************)
(* Ghost bookkeeping.                                                      *)
(*   subDone       : registrations whose Subscribe has returned            *)
(*   remStarted    : registrations a removal call that has been called     *)
(*                   could hit (Unsubscribe of their function, Clear of    *)
(*                   their type, ClearAll)                                 *)
(*   remDone       : registrations taken out of the registry by a removal  *)
(*                   call that has returned                                *)
(*   must[p], mustNot[p], got[p], rej[p] : for every open publish p: whom  *)
(*                   it must reach, must not reach, has reached, whose     *)
(*                   filter rejected it                                    *)
(*   onceRan       : Once registrations whose body has started             *)
(*   inside        : Sequential registrations whose body is running        *)
(*   nspawn        : number of asynchronous dispatches so far; the n of an   *)
(*                   async invocation is its dispatch number (the order in *)
(*                   which the publishing goroutine handed events to the   *)
(*                   handler - for a publish made from inside a handler    *)
(*                   this is not the order of the PublishContext calls)    *)
(*   seqMax[<<r,g>>]: highest dispatch number of goroutine g for which the   *)
(*                   Async+Sequential registration r has started running   *)
(*   waitNeeds[g]  : async invocations a Wait/Shutdown by g must outlast   *)
(*   log, appf     : the store: publishes appended, in append order, and   *)
(*                   the publishes whose append failed                     *)
(*   bad           : names of violated rules                               *)
(***************************************************************************)
GhostInit == [subDone |-> {}, remStarted |-> {}, remDone |-> {},
              must |-> <<>>, mustNot |-> <<>>, got |-> <<>>, rej |-> <<>>,
              onceRan |-> {}, inside |-> {}, seqMax |-> <<>>, nspawn |-> 0, waitNeeds |-> <<>>, log |-> <<>>, appf |-> {}, bad |-> {}]

Flag(cond, name) == IF cond THEN {name} ELSE {}

RemTargets(o) ==
  IF o.op = "unsub" THEN {r \in DOMAIN attr : attr[r].t = o.t /\ attr[r].fn = o.fn}
  ELSE IF o.op = "clear" THEN {r \in DOMAIN attr : attr[r].t = o.t}
  ELSE IF o.op = "clearall" THEN DOMAIN attr
  ELSE {}

\* registrations that a removal call in flight right now could still take out
PendingRemTargets ==
  UNION {RemTargets(Top(g).o) : g \in {h \in Gs : stack[h] # <<>> /\ Top(h).k = "op" /\ Top(h).pc \in {"lin", "ret"}}}

\* ------------------------------------------------------------------ init
InitWith(c) ==
  /\ cfg = c
  /\ reg = [t \in Types |-> <<>>]
  /\ attr = <<>>
  /\ fired = {}
  /\ seqHolder = <<>>
  /\ cancelled = {}
  /\ stack = [p \in Procs |-> <<>>]
  /\ closed = 0
  /\ pubs = <<>>
  /\ npub = 0
  /\ gh = GhostInit

\* ------------------------------------------------------------- API calls
\* (E) call of Subscribe / Unsubscribe / Clear / ClearAll / HandlerCount / HasHandlers /
\*     cancel(ctx) / ctxerr(ctx) / Wait / Shutdown.   o is the operation record.
OpCall(g, o) ==
  /\ CanCall(g)
  /\ o.op \in {"sub", "unsub", "clear", "clearall", "count", "has", "cancel", "ctxerr", "wait", "shutdown"}
  /\ o.op = "sub" => o.id \notin DOMAIN attr
  /\ o.op = "cancel" => o.ctx # Bg
  /\ Push(g, [k |-> "op", o |-> o, pc |-> "lin", res |-> None,
              todo |-> IF o.op = "clearall" THEN Types ELSE {}, rm |-> {}])
  /\ gh' = [gh EXCEPT
        !.remStarted = @ \cup RemTargets(o),
        \* an open publish loses its obligation towards registrations a removal call may now hit
        !.must = [p \in DOMAIN @ |-> @[p] \ RemTargets(o)],
        !.waitNeeds = IF o.op \in {"wait", "shutdown"}
                      THEN (g :> {k \in Tasks : stack[k][1].pub \notin DOMAIN pubs}) @@ @
                      ELSE @]
  /\ UNCHANGED <<cfg, reg, attr, fired, seqHolder, cancelled, closed, pubs, npub>>

\* internal: the operation takes effect (its critical section)
OpLin(g) ==
  /\ g \in Gs /\ stack[g] # <<>> /\ Top(g).k = "op" /\ Top(g).pc = "lin"
  /\ LET f == Top(g)
         o == f.o
         done(res) == SetTop(g, [f EXCEPT !.pc = "ret", !.res = res])
         doneRm(res, rm) == SetTop(g, [f EXCEPT !.pc = "ret", !.res = res, !.rm = rm]) IN
     \/ /\ o.op = "sub"
        /\ reg' = [reg EXCEPT ![o.t] = Append(@, o.id)]
        /\ attr' = (o.id :> o) @@ attr
        /\ done("ok")
        /\ UNCHANGED <<cancelled, gh>>
     \/ /\ o.op = "unsub"
        /\ LET i == FirstIdx(reg[o.t], LAMBDA r : attr[r].fn = o.fn) IN
             IF i = 0 THEN reg' = reg /\ done("notfound")
                      ELSE reg' = [reg EXCEPT ![o.t] = RemoveAt(@, i)] /\ doneRm("ok", {reg[o.t][i]})
        /\ UNCHANGED <<attr, cancelled, gh>>
     \/ /\ o.op = "clear"
        /\ reg' = [reg EXCEPT ![o.t] = <<>>]
        /\ doneRm("ok", Range(reg[o.t]))
        /\ UNCHANGED <<attr, cancelled, gh>>
     \/ /\ o.op = "count" /\ done(Len(reg[o.t])) /\ UNCHANGED <<reg, attr, cancelled, gh>>
     \/ /\ o.op = "has" /\ done(Len(reg[o.t]) > 0) /\ UNCHANGED <<reg, attr, cancelled, gh>>
     \/ /\ o.op = "cancel" /\ cancelled' = cancelled \cup {o.ctx} /\ done("ok") /\ UNCHANGED <<reg, attr, gh>>
     \/ /\ o.op = "ctxerr" /\ done(IsCancelled(o.ctx)) /\ UNCHANGED <<reg, attr, cancelled, gh>>
     \/ /\ o.op = "wait" /\ Pending = {}
        /\ stack' = [h \in Gs \ Tasks |-> IF h = g THEN Append(Below(g), [f EXCEPT !.pc = "ret", !.res = "ok"]) ELSE stack[h]]
        /\ gh' = [gh EXCEPT !.bad = @ \cup Flag(gh.waitNeeds[g] \cap Pending # {}, "waitEarly")]
        /\ UNCHANGED <<reg, attr, cancelled>>
  /\ UNCHANGED <<cfg, fired, seqHolder, closed, pubs, npub>>

\* internal: ClearAll visits the shards one after the other; every type is cleared at some moment
\* between call and return.  (A clear of an empty type only matters right before a pending Subscribe.)
ClearAllStep(g, t) ==
  /\ g \in Gs /\ stack[g] # <<>> /\ Top(g).k = "op" /\ Top(g).pc = "lin" /\ Top(g).o.op = "clearall"
  /\ t \in Top(g).todo
  /\ \/ reg[t] # <<>>
     \/ \E g2 \in Gs : stack[g2] # <<>> /\ Top(g2).k = "op" /\ Top(g2).pc = "lin"
                       /\ Top(g2).o.op = "sub" /\ Top(g2).o.t = t
  /\ reg' = [reg EXCEPT ![t] = <<>>]
  /\ SetTop(g, [Top(g) EXCEPT !.todo = @ \ {t}, !.rm = @ \cup Range(reg[t])])
  /\ UNCHANGED <<cfg, attr, fired, seqHolder, cancelled, closed, pubs, npub, gh>>
ClearAllDone(g) ==
  /\ g \in Gs /\ stack[g] # <<>> /\ Top(g).k = "op" /\ Top(g).pc = "lin" /\ Top(g).o.op = "clearall"
  /\ \A t \in Top(g).todo : reg[t] = <<>>
  /\ SetTop(g, [Top(g) EXCEPT !.pc = "ret", !.res = "ok", !.todo = {}])
  /\ UNCHANGED <<cfg, reg, attr, fired, seqHolder, cancelled, closed, pubs, npub, gh>>

\* internal: Shutdown's select.  Done branch: all async work finished; ctx branch: its context is done.
ShutdownDone(g) ==
  /\ g \in Gs /\ stack[g] # <<>> /\ Top(g).k = "op" /\ Top(g).pc = "lin" /\ Top(g).o.op = "shutdown"
  /\ Pending = {}
  /\ stack' = [h \in Gs \ Tasks |-> IF h = g THEN Append(Below(g), [Top(g) EXCEPT !.pc = IF cfg.closer THEN "close" ELSE "ret", !.res = "nil"])
                                    ELSE stack[h]]
  /\ gh' = [gh EXCEPT !.bad = @ \cup Flag(gh.waitNeeds[g] \cap Pending # {}, "waitEarly")]
  /\ UNCHANGED <<cfg, reg, attr, fired, seqHolder, cancelled, closed, pubs, npub>>
ShutdownCtx(g) ==
  /\ g \in Gs /\ stack[g] # <<>> /\ Top(g).k = "op" /\ Top(g).pc = "lin" /\ Top(g).o.op = "shutdown"
  /\ IsCancelled(Top(g).o.ctx)
  /\ SetTop(g, [Top(g) EXCEPT !.pc = "ret", !.res = "err"])
  /\ UNCHANGED <<cfg, reg, attr, fired, seqHolder, cancelled, closed, pubs, npub, gh>>
\* (E) the store's Close is called by Shutdown; ok = it returned nil (a failing Close is what Shutdown returns)
StoreClose(g, ok) ==
  /\ g \in Gs /\ stack[g] # <<>> /\ Top(g).k = "op" /\ Top(g).pc = "close"
  /\ ok \in BOOLEAN
  /\ closed' = closed + 1
  /\ SetTop(g, [Top(g) EXCEPT !.pc = "ret", !.res = IF ok THEN "nil" ELSE "err"])
  /\ gh' = [gh EXCEPT !.bad = @ \cup Flag(gh.waitNeeds[g] \cap Pending # {}, "closedEarly")]
  /\ UNCHANGED <<cfg, reg, attr, fired, seqHolder, cancelled, pubs, npub>>

\* (E) return of an API call with result res
OpRet(g, res) ==
  /\ g \in Gs /\ stack[g] # <<>> /\ Top(g).k = "op" /\ Top(g).pc = "ret"
  /\ res = Top(g).res
  /\ stack' = [stack EXCEPT ![g] = Below(g)]
  /\ LET o == Top(g).o IN
     gh' = [gh EXCEPT
        !.subDone = IF o.op = "sub" THEN @ \cup {o.id} ELSE @,
        !.remDone = @ \cup Top(g).rm,
        !.remStarted = @ \cup Top(g).rm,
        !.waitNeeds = Restrict(@, DOMAIN @ \ {g})]
  /\ UNCHANGED <<cfg, reg, attr, fired, seqHolder, cancelled, closed, pubs, npub>>

\* --------------------------------------------------------------- publish
\* (E) PublishContext(ctx, event) is called.  ctx is Bg or a context id (possibly cancelled already).
PubCall(g, p, t, val, ctx) ==
  /\ CanCall(g)
  /\ p \notin DOMAIN pubs
  /\ t \in Types
  /\ Push(g, AfterStart([k |-> "pub", pub |-> p, t |-> t, val |-> val, ctx |-> ctx, n |-> npub + 1, pc |-> "start",
                         todo |-> {}, snap |-> <<>>, i |-> 1, retire |-> {}, claimed |-> {},
                         pre |-> IsCancelled(ctx), pok |-> TRUE]))
  /\ pubs' = (p :> [g |-> g, t |-> t, val |-> val, ctx |-> ctx]) @@ pubs
  /\ npub' = npub + 1
  /\ gh' = [gh EXCEPT
        !.must = (p :> {r \in gh.subDone : attr[r].t = t /\ r \notin gh.remStarted /\ r \notin PendingRemTargets}) @@ @,
        !.mustNot = (p :> (gh.remDone \cup {r \in DOMAIN attr : attr[r].t # t})) @@ @,
        !.got = (p :> {}) @@ @,
        !.rej = (p :> {}) @@ @]
  /\ UNCHANGED <<cfg, reg, attr, fired, seqHolder, cancelled, closed>>

PubAt(g, pc) == g \in Gs /\ stack[g] # <<>> /\ Top(g).k = "pub" /\ Top(g).pc = pc

\* (E) Observability.OnPublishStart
ObsPubStart(g) ==
  /\ PubAt(g, "obs0")
  /\ SetTop(g, AfterObs0(Top(g)))
  /\ UNCHANGED <<cfg, reg, attr, fired, seqHolder, cancelled, closed, pubs, npub, gh>>

\* (E) a before-publish hook (legacy or context-aware; their relative order is not promised)
HookBefore(g, h) ==
  /\ PubAt(g, "before") /\ h \in Top(g).todo
  /\ LET f == [Top(g) EXCEPT !.todo = @ \ {h}] IN
       SetTop(g, IF f.todo = {} THEN AfterBefore(f) ELSE f)
  /\ UNCHANGED <<cfg, reg, attr, fired, seqHolder, cancelled, closed, pubs, npub, gh>>

\* (E) Observability.OnPersistStart
ObsPersistStart(g) ==
  /\ PubAt(g, "pers0")
  /\ SetTop(g, [Top(g) EXCEPT !.pc = "append"])
  /\ UNCHANGED <<cfg, reg, attr, fired, seqHolder, cancelled, closed, pubs, npub, gh>>

\* (E) EventStore.Append, under storeMu: one record per publish, whether or not its context is cancelled;
\*     ok = the store accepted it (a rejected append, or one cut off by the persistence timeout, writes nothing)
StoreAppend(g, ok) ==
  /\ PubAt(g, "append") /\ ok \in BOOLEAN
  /\ SetTop(g, AfterAppend([Top(g) EXCEPT !.pok = ok]))
  /\ gh' = [gh EXCEPT !.log = IF ok THEN Append(@, Top(g).pub) ELSE @,
                       !.appf = IF ok THEN @ ELSE @ \cup {Top(g).pub},
                       !.bad = @ \cup Flag(Top(g).pub \in Range(gh.log) \cup gh.appf, "appendTwice")]
  /\ UNCHANGED <<cfg, reg, attr, fired, seqHolder, cancelled, closed, pubs, npub>>

\* (E) Observability.OnPersistComplete (err = the append failed)
ObsPersistDone(g, err) ==
  /\ PubAt(g, "pers1") /\ err = ~Top(g).pok
  /\ SetTop(g, AfterPersist(Top(g)))
  /\ UNCHANGED <<cfg, reg, attr, fired, seqHolder, cancelled, closed, pubs, npub, gh>>

\* (E) the persistence error handler is told about the failed append, once
PersistErrH(g) ==
  /\ PubAt(g, "perrh")
  /\ SetTop(g, [Top(g) EXCEPT !.pc = "snap"])
  /\ UNCHANGED <<cfg, reg, attr, fired, seqHolder, cancelled, closed, pubs, npub, gh>>

\* internal: snapshot of the type's handler list under the shard's read lock
Snapshot(g) ==
  /\ PubAt(g, "snap")
  /\ SetTop(g, LoopNorm([Top(g) EXCEPT !.snap = reg[Top(g).t], !.i = 1]))
  /\ UNCHANGED <<cfg, reg, attr, fired, seqHolder, cancelled, closed, pubs, npub, gh>>

\* (E) the filter of the current registration is evaluated and returns res
Filter(g, r, res) ==
  /\ PubAt(g, "filter") /\ Top(g).snap[Top(g).i] = r
  /\ res \in BOOLEAN
  /\ SetTop(g, IF res THEN AfterFilterPass(Top(g)) ELSE NextHandler(Top(g)))
  /\ gh' = [gh EXCEPT !.rej = [@ EXCEPT ![Top(g).pub] = IF res THEN @ ELSE @ \cup {r}]]
  /\ UNCHANGED <<cfg, reg, attr, fired, seqHolder, cancelled, closed, pubs, npub>>

\* internal: a Once registration is claimed with compare-and-swap - unless the publish context is
\* already cancelled, in which case the registration is skipped without being used up (C04).
Claim(g) ==
  /\ PubAt(g, "claim")
  /\ LET f == Top(g)  r == f.snap[f.i] IN
       IF IsCancelled(f.ctx) \/ r \in fired
       THEN /\ SetTop(g, NextHandler(f)) /\ UNCHANGED fired
       ELSE /\ fired' = fired \cup {r}
            /\ SetTop(g, [f EXCEPT !.pc = "dispatch", !.retire = @ \cup {r}, !.claimed = @ \cup {r}])
  /\ UNCHANGED <<cfg, reg, attr, seqHolder, cancelled, closed, pubs, npub, gh>>

\* C04: a Once registration claimed by publish p whose body never starts (and will never start) was used up
\* without running.  That is only legitimate if the context was cancelled after the publish was called
\* (pre = the context was already cancelled when the publish was called).
OnceWasted(g) ==
  \E r \in Top(g).claimed :
     /\ r \notin gh.onceRan
     /\ ~IsCancelled(Top(g).ctx) \/ Top(g).pre
     /\ ~\E k \in Tasks : stack[k][1].reg = r

\* internal: dispatch of the current registration: asynchronous ones are counted in the wait group
\* and get their own goroutine; synchronous ones are skipped if the context is cancelled by now.
Dispatch(g) ==
  /\ PubAt(g, "dispatch")
  /\ LET f == Top(g)  r == f.snap[f.i]  tid == TaskId(f.pub, r) IN
       IF attr[r].async
       THEN /\ stack' = [h \in Gs \cup {tid} |->
                           IF h = tid
                           THEN <<IF f.ctx = Bg THEN InvStart(NewInv(r, f.pub, TRUE, g, gh.nspawn + 1, f.ctx))
                                  ELSE [NewInv(r, f.pub, TRUE, g, gh.nspawn + 1, f.ctx) EXCEPT !.pc = "tctx"]>>
                           ELSE IF h = g THEN Append(Below(g), NextHandler(f)) ELSE stack[h]]
            /\ gh' = [gh EXCEPT !.got = [@ EXCEPT ![f.pub] = @ \cup {r}],
                                !.nspawn = @ + 1,
                                !.bad = @ \cup Flag(r \in gh.got[f.pub], "twice")
                                          \cup Flag(r \in gh.mustNot[f.pub], "mustNot")]
       ELSE /\ IF IsCancelled(f.ctx)
               THEN SetTop(g, NextHandler(f))
               ELSE SetTopPush(g, [f EXCEPT !.pc = "running"], InvStart(NewInv(r, f.pub, FALSE, g, f.n, f.ctx)))
            /\ UNCHANGED gh
  /\ UNCHANGED <<cfg, reg, attr, fired, seqHolder, cancelled, closed, pubs, npub>>

\* internal (model checking only; the trace module lets Wait / Shutdown do it): a dispatched invocation whose context is
\* cancelled by now is skipped by its goroutine
TaskSkip(g) ==
  /\ g \in Gs /\ Skippable(g)
  /\ stack' = [h \in Gs \ {g} |-> stack[h]]
  /\ UNCHANGED <<cfg, reg, attr, fired, seqHolder, cancelled, closed, pubs, npub, gh>>

InvAt(g, pc) == g \in Gs /\ stack[g] # <<>> /\ Top(g).k = "inv" /\ Top(g).pc = pc

\* (E) Observability.OnHandlerStart
ObsHandlerStart(g) ==
  /\ g \in Gs /\ stack[g] # <<>> /\ Top(g).k = "inv" /\ MayStart(Top(g)) /\ Started(Top(g)).pc = "hstart"
  /\ SetTop(g, InvAfterHStart(Started(Top(g))))
  /\ UNCHANGED <<cfg, reg, attr, fired, seqHolder, cancelled, closed, pubs, npub, gh>>

\* Async invocations of r that the same goroutine dispatched earlier and that have not started yet (C07 FIFO)
EarlierWaiting(g) ==
  {k \in WaitingTasks \ {g} : Top(k).reg = Top(g).reg /\ Top(k).pg = Top(g).pg /\ Top(k).n < Top(g).n}

\* the invocation g starts after an event that the same goroutine dispatched later was already processed by the
\* same Async+Sequential registration
FifoInversion(g) ==
  /\ attr[Top(g).reg].seq /\ Top(g).async
  /\ <<Top(g).reg, Top(g).pg>> \in DOMAIN gh.seqMax
  /\ gh.seqMax[<<Top(g).reg, Top(g).pg>>] > Top(g).n

\* A Sequential registration's mutex is taken right before its body starts (nothing is observable between the
\* acquisition and the start of the body, so the two are one step): the body can only start while no other
\* invocation of the registration is inside, and - with a ticket lock - when it is its turn.
SeqFree(g) ==
  attr[Top(g).reg].seq =>
    /\ Top(g).reg \notin DOMAIN seqHolder
    /\ (FifoLock /\ Top(g).async) => EarlierWaiting(g) = {}

\* the effect of starting the handler body of registration r for publish p
AtEnter(g) == g \in Gs /\ stack[g] # <<>> /\ Top(g).k = "inv" /\ MayStart(Top(g)) /\ Started(Top(g)).pc = "enter"
EnterBody(g, r, p) ==
  /\ AtEnter(g) /\ Top(g).reg = r /\ Top(g).pub = p
  /\ seqHolder' = IF attr[r].seq THEN (r :> g) @@ seqHolder ELSE seqHolder
  /\ SetTop(g, [Top(g) EXCEPT !.pc = "body"])
  /\ gh' = [gh EXCEPT
        !.got = IF Top(g).async THEN @ ELSE [@ EXCEPT ![p] = @ \cup {r}],
        !.onceRan = IF attr[r].once THEN @ \cup {r} ELSE @,
        !.inside = IF attr[r].seq THEN @ \cup {r} ELSE @,
        !.seqMax = IF attr[r].seq /\ Top(g).async /\ ~FifoInversion(g)
                   THEN (<<r, Top(g).pg>> :> Top(g).n) @@ @ ELSE @,
        !.bad = @ \cup Flag(~Top(g).async /\ r \in gh.got[p], "twice")
                  \cup Flag(~Top(g).async /\ r \in gh.mustNot[p], "mustNot")
                  \cup Flag(attr[r].once /\ r \in gh.onceRan, "onceTwice")
                  \cup Flag(attr[r].seq /\ r \in gh.inside, "overlap")
                  \cup Flag(FifoInversion(g), "fifo")
                  \cup Flag(HasStore /\ p \notin Range(gh.log) \cup gh.appf, "unrecorded")]
  /\ UNCHANGED <<cfg, reg, attr, fired, cancelled, closed, pubs, npub>>

\* (E) the handler body of registration r starts running for publish p
Enter(g, r, p) == AtEnter(g) /\ SeqFree(g) /\ EnterBody(g, r, p)

\* (E) the handler body returns (panicked = it panicked); a Sequential mutex is released
Exit(g, r, p, panicked) ==
  /\ InvAt(g, "body") /\ Top(g).reg = r /\ Top(g).pub = p
  /\ panicked \in BOOLEAN
  /\ AfterInvStep(g, InvAfterExit([Top(g) EXCEPT !.panicked = panicked]))
  /\ seqHolder' = Restrict(seqHolder, DOMAIN seqHolder \ {r})
  /\ gh' = [gh EXCEPT !.inside = @ \ {r}]
  /\ UNCHANGED <<cfg, reg, attr, fired, cancelled, closed, pubs, npub>>

\* (E) the panic handler is called for a recovered panic
PanicHandler(g) ==
  /\ InvAt(g, "panich")
  /\ AfterInvStep(g, InvAfterPanicH(Top(g)))
  /\ UNCHANGED <<cfg, reg, attr, fired, seqHolder, cancelled, closed, pubs, npub, gh>>

\* (E) Observability.OnHandlerComplete (err = the invocation panicked)
ObsHandlerDone(g, err) ==
  /\ InvAt(g, "hdone")
  /\ err = Top(g).panicked
  /\ AfterInvStep(g, [Top(g) EXCEPT !.pc = "end"])
  /\ UNCHANGED <<cfg, reg, attr, fired, seqHolder, cancelled, closed, pubs, npub, gh>>

\* internal: the Once registrations this publish claimed leave the registry
Retire(g) ==
  /\ PubAt(g, "retire")
  /\ reg' = [reg EXCEPT ![Top(g).t] = Without(@, Top(g).retire)]
  /\ SetTop(g, AfterRetire([Top(g) EXCEPT !.retire = {}]))
  /\ UNCHANGED <<cfg, attr, fired, seqHolder, cancelled, closed, pubs, npub, gh>>

\* (E) an after-publish hook
HookAfter(g, h) ==
  /\ PubAt(g, "after") /\ h \in Top(g).todo
  /\ LET f == [Top(g) EXCEPT !.todo = @ \ {h}] IN
       SetTop(g, IF f.todo = {} THEN AfterAfter(f) ELSE f)
  /\ UNCHANGED <<cfg, reg, attr, fired, seqHolder, cancelled, closed, pubs, npub, gh>>

\* (E) Observability.OnPublishComplete
ObsPubDone(g) ==
  /\ PubAt(g, "obs1")
  /\ SetTop(g, [Top(g) EXCEPT !.pc = "ret"])
  /\ UNCHANGED <<cfg, reg, attr, fired, seqHolder, cancelled, closed, pubs, npub, gh>>

\* A registration the finished publish p owed a delivery to is excused if its filter rejected the
\* event, it is a Once registration that has fired, or the publish context could be cancelled.
Excused(p, r) ==
  \/ r \in gh.rej[p]
  \/ attr[r].once /\ r \in fired
  \/ pubs[p].ctx # Bg

\* a Once registration that ran for this publish and that nobody is about to retire is still registered
OnceLeftBehind(g) ==
  \E r \in fired \cap Range(reg[Top(g).t]) :
     /\ r \in Range(Top(g).snap) /\ r \in gh.onceRan /\ r \in gh.got[Top(g).pub]
     /\ ~\E g2 \in Gs \ {g} : \E i \in 1..Len(stack[g2]) : stack[g2][i].k = "pub" /\ r \in stack[g2][i].retire

\* (E) PublishContext returns
PubRet(g) ==
  /\ PubAt(g, "ret")
  /\ stack' = [stack EXCEPT ![g] = Below(g)]
  /\ LET p == Top(g).pub IN
     /\ pubs' = Restrict(pubs, DOMAIN pubs \ {p})
     /\ gh' = [gh EXCEPT
          !.must = Restrict(@, DOMAIN @ \ {p}), !.mustNot = Restrict(@, DOMAIN @ \ {p}),
          !.got = Restrict(@, DOMAIN @ \ {p}), !.rej = Restrict(@, DOMAIN @ \ {p}),
          !.bad = @ \cup Flag(\E r \in gh.must[p] : r \notin gh.got[p] /\ ~Excused(p, r), "mustMissed")
                    \cup Flag(OnceLeftBehind(g), "onceLeft")
                    \cup Flag(OnceWasted(g), "onceWasted")
                    \cup Flag(HasStore /\ p \notin Range(gh.log) \cup gh.appf, "unrecorded")]
  /\ UNCHANGED <<cfg, reg, attr, fired, seqHolder, cancelled, closed, npub>>

\* all internal steps of goroutine g
InternalStep(g) ==
  \/ OpLin(g) \/ ClearAllDone(g) \/ ShutdownDone(g) \/ ShutdownCtx(g)
  \/ \E t \in Types : ClearAllStep(g, t)
  \/ Snapshot(g) \/ Claim(g) \/ Dispatch(g) \/ Retire(g)

\* ------------------------------------------------------------ properties
TypeOK ==
  /\ \A t \in Types : \A i \in 1..Len(reg[t]) : reg[t][i] \in DOMAIN attr /\ attr[reg[t][i]].t = t
  /\ \A t \in Types : \A i, j \in 1..Len(reg[t]) : i # j => reg[t][i] # reg[t][j]
  /\ \A g \in Tasks : stack[g] # <<>>
  /\ DOMAIN seqHolder \subseteq DOMAIN attr

\* C01/C02: nobody is invoked twice for one publish
AtMostOncePerPublish == "twice" \notin gh.bad
\* C01/C02: nobody of another type, nobody whose removal had returned before the publish was called
MustNotDeliver == "mustNot" \notin gh.bad
\* C02: a registration whose Subscribe returned before the publish was called and whose removal was not
\* started before it returned is invoked - unless filter, Once or cancellation excuse it
MustDeliver == "mustMissed" \notin gh.bad
\* C04: a Once registration is invoked at most once
OnceAtMostOnce == "onceTwice" \notin gh.bad
\* C04: a Once registration that ran is out of the registry when the publish that claimed it is over
OnceRetired == "onceLeft" \notin gh.bad
\* C04: a Once registration is never used up by a publish that did not run it
OnceNotWasted == "onceWasted" \notin gh.bad
\* C06: Wait / Shutdown(nil) return only after the async work of earlier publishes is done; Close only then
WaitCovers == "waitEarly" \notin gh.bad
CloseOnlyWhenDrained == "closedEarly" \notin gh.bad
\* C07
NoOverlap == "overlap" \notin gh.bad
SeqFifo == "fifo" \notin gh.bad
\* C09/C13: on a bus with a store every publish makes exactly one append attempt, before any of its handlers runs and
\* before it returns; a failed attempt writes nothing and is not retried
RecordedFirst == "unrecorded" \notin gh.bad
AppendOnce == "appendTwice" \notin gh.bad
LogSound == /\ \A i, j \in 1..Len(gh.log) : i # j => gh.log[i] # gh.log[j]
            /\ Range(gh.log) \cap gh.appf = {}
\* C01: the registry never holds a registration that a returned removal call took out
RegistrySound == \A t \in Types : Range(reg[t]) \cap gh.remDone = {}
=============================================================================
