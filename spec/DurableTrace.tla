----------------------------- MODULE DurableTrace -----------------------------
(* Trace validation of kill / reopen histories of the SQLite store (C14).  A child process appends events
   and saves subscription offsets, reporting "start" before and "ack" after every call over a pipe; the
   parent kills it (SIGKILL) after an arbitrary report, or lets it close, then reopens the database twice,
   reads everything and appends once more.  The acceptor is the invariant of Durable.tla evaluated at
   every reopen. *)
EXTENDS Integers, Sequences, FiniteSets, TLC, Json, IOUtils

Trace == ndJsonDeserialize(IOEnv.TRACE)
VARIABLES l, started, acked, saveStarted, saveAcked, lastLog
tvars == <<l, started, acked, saveStarted, saveAcked, lastLog>>

Range(s) == {s[i] : i \in 1..Len(s)}
IsPrefix(a, b) == Len(a) <= Len(b) /\ a = SubSeq(b, 1, Len(a))
InOrder(s, order) == \A i, j \in 1..Len(s) : i < j => \E a, b \in 1..Len(order) : order[a] = s[i] /\ order[b] = s[j] /\ a < b

EventStep(e) ==
  \/ /\ e.e = "reset" /\ started' = <<>> /\ acked' = {} /\ saveStarted' = {} /\ saveAcked' = 0 /\ lastLog' = <<>>
  \/ /\ e.e = "start" /\ started' = Append(started, e.id) /\ UNCHANGED <<acked, saveStarted, saveAcked, lastLog>>
  \/ /\ e.e = "ack" /\ e.id \in Range(started) /\ acked' = acked \cup {e.id} /\ UNCHANGED <<started, saveStarted, saveAcked, lastLog>>
  \/ /\ e.e = "savestart" /\ saveStarted' = saveStarted \cup {e.pos} /\ UNCHANGED <<started, acked, saveAcked, lastLog>>
  \/ /\ e.e = "saveack" /\ saveAcked' = e.pos /\ saveStarted' = saveStarted \ {e.pos} /\ UNCHANGED <<started, acked, lastLog>>
  \* a SaveOffset called with a cancelled context returned an error: it must not have taken effect
  \/ /\ e.e = "saverefused" /\ saveStarted' = saveStarted \ {e.pos} /\ UNCHANGED <<started, acked, saveAcked, lastLog>>
  \/ /\ e.e \in {"kill", "close"} /\ UNCHANGED <<started, acked, saveStarted, saveAcked, lastLog>>
  \/ /\ e.e = "open"
     /\ acked \subseteq Range(e.log)                        \* every acknowledged event survived
     /\ Range(e.log) \subseteq Range(started)               \* nothing that was never appended
     /\ Cardinality((Range(e.log) \ Range(lastLog)) \ acked) <= e.writers   \* plus at most the ones in flight when it was killed
     /\ \A i, j \in 1..Len(e.log) : i # j => e.log[i] # e.log[j]
     /\ e.writers = 1 => InOrder(SubSeq(e.log, Len(lastLog) + 1, Len(e.log)), started)   \* what this run added is in call order
     /\ IsPrefix(lastLog, e.log)                            \* the same sequence as before, only longer
     /\ e.offsincreasing /\ e.payloadok
     /\ e.saved = saveAcked \/ e.saved \in saveStarted      \* the acknowledged saved offset (or the one in flight when it was killed)
     /\ lastLog' = e.log /\ saveAcked' = e.saved /\ saveStarted' = {}
     /\ UNCHANGED <<started, acked>>
  \/ /\ e.e = "reopen" /\ e.log = lastLog /\ e.saved = e.savedbefore    \* opening an existing database changes nothing
     /\ UNCHANGED <<started, acked, saveStarted, saveAcked, lastLog>>
  \/ /\ e.e = "appendafter" /\ e.greater                   \* new appends receive larger offsets
     /\ started' = Append(started, e.id) /\ acked' = acked \cup {e.id}
     /\ lastLog' = Append(lastLog, e.id) /\ UNCHANGED <<saveStarted, saveAcked>>

TraceInit == l = 1 /\ started = <<>> /\ acked = {} /\ saveStarted = {} /\ saveAcked = 0 /\ lastLog = <<>> /\ TLCSet(1, 1)
TraceNext == l <= Len(Trace) /\ EventStep(Trace[l]) /\ l' = l + 1
TraceSpec == TraceInit /\ [][TraceNext]_tvars
HighWater ==
  /\ IF l > TLCGet(1) THEN TLCSet(1, l) ELSE TRUE
  /\ l <= Len(Trace) \/ (PrintT("TRACE_ACCEPTED") /\ TLCSet("exit", TRUE))
Report == PrintT(<<"HIGHWATER", TLCGet(1)>>)
=============================================================================
