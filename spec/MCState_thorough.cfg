SPECIFICATION MCSpec
CONSTANTS
  Registered = {"ta", "tb"}
  NoOffset = 0
  Types = {"ta", "tb", "tc"}
  Keys = {"a", "a/b"}
  Vals = {1, 2}
  MaxMsgs = 4
INVARIANTS IsFold LastIsLastApplied ResumeLosesNothing
CHECK_DEADLOCK FALSE
