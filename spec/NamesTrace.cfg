SPECIFICATION TraceSpec
CONSTRAINT HighWater
POSTCONDITION Report
CHECK_DEADLOCK FALSE
