------------------------------- MODULE MCLocks -------------------------------
EXTENDS Locks
topOps == {[op |-> "publish", t |-> "T1", seq |-> FALSE], [op |-> "publish", t |-> "T2", seq |-> TRUE],
           [op |-> "subscribe", t |-> "T1"], [op |-> "unsubscribe", t |-> "T2"], [op |-> "clear", t |-> "T1"],
           [op |-> "clearall"], [op |-> "count", t |-> "T2"], [op |-> "replay"], [op |-> "registerUpcast"], [op |-> "materialize"]}
nestedOps == {[op |-> "publish", t |-> "T1", seq |-> FALSE], [op |-> "publish", t |-> "T2", seq |-> TRUE], [op |-> "publish", t |-> "T3", seq |-> FALSE],
              [op |-> "subscribe", t |-> "T2"], [op |-> "unsubscribe", t |-> "T1"], [op |-> "clear", t |-> "T2"], [op |-> "clearall"], [op |-> "has", t |-> "T1"]}
=============================================================================
