----------------------------- MODULE UpcastTrace -----------------------------
(* Trace validation of the upcaster registry and of upcasting replays against Upcast.tla.  Sequential
   lines: reg (with the result the real RegisterUpcastFunc returned), clear, cleartype, apply (what the
   callback of ReplayWithUpcast saw for a stored event of type t).  Concurrent registrations are logged as
   regcall / regret; TLC places the registry's critical section between them. *)
EXTENDS Upcast, Json, IOUtils

Trace == ndJsonDeserialize(IOEnv.TRACE)
VARIABLES l, pend
tvars == <<uvars, l, pend>>

EventStep(e) ==
  \/ /\ e.e = "new" /\ Clear /\ pend' = <<>>
  \/ /\ e.e = "reg" /\ Register(e.from, e.to, e.nil, e.uid, e.ret, e.fails, e.res) /\ UNCHANGED pend
  \/ /\ e.e = "clear" /\ Clear /\ UNCHANGED pend
  \/ /\ e.e = "cleartype" /\ ClearType(e.t) /\ UNCHANGED pend
  \/ /\ e.e = "apply" /\ UNCHANGED <<edges, pend>>
     /\ ~e.hung                                                    \* upcasting terminates
     /\ e.meta                                                     \* offset and timestamp unchanged
     /\ LET r == ApplyResult(e.t) IN
        IF r.failed \/ r.loop
        THEN /\ e.orig /\ e.out = e.t /\ e.path = <<>>             \* the callback sees the original event, never a partly upcast one
             /\ r.failed => e.errh = 1                             \* the failure is reported once
        ELSE /\ e.out = r.type /\ e.path = r.path                  \* exactly the composed data and the final type
             /\ e.errh = 0
             /\ (r.path = <<>>) => e.orig                          \* events without upcaster are untouched
  \/ /\ e.e = "regcall" /\ e.g \notin DOMAIN pend
     /\ pend' = (e.g :> [from |-> e.from, to |-> e.to, uid |-> e.uid, lin |-> FALSE, res |-> "none"]) @@ pend
     /\ UNCHANGED edges
  \/ /\ e.e = "regret" /\ e.g \in DOMAIN pend /\ pend[e.g].lin /\ pend[e.g].res = e.res
     /\ pend' = [g \in DOMAIN pend \ {e.g} |-> pend[g]] /\ UNCHANGED edges

\* internal: a pending concurrent registration takes effect
RegLin == \E g \in DOMAIN pend :
  /\ ~pend[g].lin
  /\ LET p == pend[g]  res == IF Rejected(p.from, p.to, FALSE) THEN "err" ELSE "ok" IN
       /\ Register(p.from, p.to, FALSE, p.uid, p.to, FALSE, res)
       /\ pend' = [pend EXCEPT ![g].lin = TRUE, ![g].res = res]

TraceInit == UInit /\ l = 1 /\ pend = <<>> /\ TLCSet(1, 1)
TraceNext == /\ l <= Len(Trace)
             /\ \/ EventStep(Trace[l]) /\ l' = l + 1
                \/ RegLin /\ l' = l
TraceSpec == TraceInit /\ [][TraceNext]_tvars
HighWater ==
  /\ IF l > TLCGet(1) THEN TLCSet(1, l) ELSE TRUE
  /\ l <= Len(Trace) \/ (PrintT("TRACE_ACCEPTED") /\ TLCSet("exit", TRUE))
Report == PrintT(<<"HIGHWATER", TLCGet(1)>>)
=============================================================================
