------------------------------- MODULE MCState -------------------------------
(* All message sequences up to MaxMsgs over two registered and one unregistered entity type, keys that
   contain the separator, strict and non-strict mode, applied in one or in two sessions. *)
EXTENDS State
CONSTANTS Types, Keys, Vals, MaxMsgs
VARIABLES applied,     \* the log: sequence of messages offered so far (offset = index)
          sessions     \* number of session splits so far
mvars == <<svars, applied, sessions>>

Msgs == [kind : {"insert", "update"}, type : Types, key : Keys, val : Vals]
   \cup [kind : {"delete"}, type : Types, key : Keys, val : {0}]
   \cup {[kind |-> k] : k \in {"reset", "snapstart", "snapend", "garbage"}}
   \cup [kind : {"badvalue"}, type : Types, key : Keys]

MCInit == (\E s \in BOOLEAN : SInit(s)) /\ applied = <<>> /\ sessions = 0
Step == /\ Len(applied) < MaxMsgs
        /\ \E m \in Msgs : Apply(m, Len(applied) + 1, Rejects(m)) /\ applied' = Append(applied, m)
        /\ UNCHANGED sessions
\* a session ends; the next one resumes after LastOffset: it re-offers the events after it (those were rejected
\* before, and are rejected again), so the state stays the one-session fold
Split == /\ sessions < 2 /\ sessions' = sessions + 1
         /\ UNCHANGED <<svars, applied>>
MCNext == Step \/ Split
MCSpec == MCInit /\ [][MCNext]_mvars

\* C18: the state is the fold of the log; LastOffset is the offset of the last successfully applied event
IsFold == coll = Fold(applied, Empty)
LastIsLastApplied ==
  LET ok == {i \in 1..Len(applied) : ~Rejects(applied[i])} IN
  last = IF ok = {} THEN NoOffset ELSE CHOOSE i \in ok : \A j \in ok : j <= i
\* resuming from LastOffset loses nothing: every event after it is one that was rejected
ResumeLosesNothing == \A i \in 1..Len(applied) : (last = NoOffset \/ i > last) => Rejects(applied[i])
=============================================================================
