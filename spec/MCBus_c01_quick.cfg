SPECIFICATION MCSpec
CONSTANTS
  FifoLock = TRUE
  Types = {"T1", "T2"}
  Procs = {1}
  Fns = {"f0", "f1"}
  Vals = {"a", "b"}
  Ctxs = {}
  PubCtxs = {"bg"}
  Profiles <- c01Profiles
  Cfgs <- c01Cfgs
  TopKinds = {"sub", "unsub", "clear", "clearall", "count", "pub", "wait"}
  Roles <- allRoles
  MaxReg = 2
  MaxPub = 1
  MaxTop = 0
  Mutant = "none"
INVARIANTS TypeOK AtMostOncePerPublish MustNotDeliver MustDeliver OnceAtMostOnce OnceRetired WaitCovers
CHECK_DEADLOCK FALSE
VIEW View
