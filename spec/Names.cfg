SPECIFICATION Spec
CONSTANTS
  TypedRoutesUseReflect = FALSE
INVARIANT OneName
CHECK_DEADLOCK FALSE
