#!/bin/bash
# seedtest.sh <seed-id> <check> [tier]  — apply /verif/seeded/<seed-id>/patch.diff (or a /tmp/seed path) to /repo,
# run the check, undo the patch straight afterwards.
ID=$1; CHK=$2; TIER=${3:-quick}
P=/verif/seeded/$ID/patch.diff; [ -f "$P" ] || P=$ID
[ -f "$P" ] || { echo "no patch $P"; exit 2; }
git -C /repo diff --quiet || { echo "/repo is dirty"; exit 2; }
git -C /repo apply "$P" || exit 2
cd /verif && VERIF_SEED=${VERIF_SEED:-1} ./check $CHK $TIER > /tmp/seedtest.$$.log 2>&1; rc=$?
git -C /repo checkout -- . 
grep -E "^VIOLATION|^KNOWN|clause=|INFRA|tier=" /tmp/seedtest.$$.log | head -12
echo "== $ID on $CHK $TIER: exit $rc"; rm -f /tmp/seedtest.$$.log
exit $rc
