#!/usr/bin/env python3
"""Regenerates DESIGN.md section 12 (seeded changes and which checks catch them) from seeded/*/meta.json."""
import json,glob,os,re
desc={}
for l in open('/verif/seeded/DESCRIPTIONS.tsv'):
    p=l.rstrip('\n').split('\t')
    if len(p)>=3: desc[p[0]]=(p[1],p[2])
rows=[]
for d in sorted(glob.glob('/verif/seeded/*/')):
    sid=os.path.basename(d.rstrip('/'))
    if not os.path.exists(d+'meta.json'): continue
    m=json.load(open(d+'meta.json'))
    det=sorted({x.split(' (')[0] for x in m.get('detected_by',[])})
    miss=[x for x in m.get('not_detected_by',[]) if x.split(' (')[0] not in det]
    dflt=('reverse patch of the repair of '+sid.split('-')[0]+' (§11)','the scenario of §11')
    c,n=desc.get(sid,dflt)
    rows.append((sid,m.get('property','?'),c,n,', '.join(det) or '–',', '.join(miss) or ''))
caught=sum(1 for r in rows if r[4]!='–')
head=f'''## 12. Seeded changes and which checks catch them

Fresh sub-agents were given only the text of one property and a scratch worktree of the repository and asked for
changes that break the property while the repository still compiles and its whole suite passes, each with a
demonstration.  Every change kept here was confirmed independently (`tools/verify_seed.sh`: demonstration passes
without the change, suite passes with it, demonstration fails with it) against the repaired tree; changes from the
first round that collided with a later repair were ported to the repaired code and confirmed again (C06-A could not
be ported: the code it modifies was replaced; C07-B and C12-A no longer break their property after the repairs of D2
and D10).  There were four rounds: two changes per property (`-A`, `-B`), a second pair (`-C`, `-D`) for the
properties whose checks had caught the first pair most easily, and a pair (`-C`, `-D`) for the remaining twelve.  The
third round was used to widen the specifications (§10.5): before that, 11 of its 24 changes were missed by the check
of their own property; the table shows the state afterwards.  A fourth round (`-E`, one further change per property
from a new set of sub-agents, after the specifications had been widened) was run against the final checks.  The `Dxx-revert` entries are the reverse patches of this project's own `fix:` commits.  `seeded/<id>/`
holds `patch.diff`, the demonstration, `notes.md` and `meta.json`; `tools/matrix.sh` produced the table
(`seeded/MATRIX.*.tsv`; each run applies the change to an isolated copy of the repository and runs the check of the
property it breaks, plus related checks).  {caught} of {len(rows)} entries are caught by at least one registered check.

| Seed | Property | Change | What it needs to manifest | Caught by | Not caught by |
|---|---|---|---|---|---|
'''
body=''.join('| '+' | '.join(r)+' |\n' for r in rows)
tail='''
Remarks.  Detection of changes that need one specific interleaving *inside* a critical section of the registry
(C01-B, C02-B: windows inside `Unsubscribe`) is statistical: the quick tier's churn sample (1 500 scripts) hits the
window in some runs only; the thorough tier runs 40 000 churn scripts with long handler lists.  Everything else in
the table is caught by the quick tier of the listed checks.
'''
sec=head+body+tail
p='/verif/DESIGN.md'
s=open(p).read()
b,e='<!-- SEC12-BEGIN -->','<!-- SEC12-END -->'
if b in s:
    s=s[:s.index(b)+len(b)]+'\n'+sec+s[s.index(e):]
else:
    s=s.replace('\n## 13. Using and maintaining the machinery', '\n'+b+'\n'+sec+e+'\n\n## 13. Using and maintaining the machinery')
open(p,'w').write(s)
print(caught,len(rows))
