#!/usr/bin/env python3
"""Regenerates /verif/MANIFEST.json from the table below (one entry per claimed property)."""
import json
props=[json.loads(l) for l in open('/verif/properties.jsonl')]
MC="model_checking"
CHECKS={
 "C01": dict(technique="TLA+ spec Bus.tla: exhaustive TLC (MCBus_c01) + TLC-generated behaviours replayed on the real bus + random and directed (re-entrant publish cascade) executions, all recorded traces validated against BusTrace.tla",
   text="TLC visits every reachable configuration of the bus model for one driver goroutine with re-entrant handler bodies (subscribe/unsubscribe/clear/clearall/publish/queries from inside handlers, once, async, filters, two types on one shard) and checks the delivery/registry invariants in each; the binding to the code is trace validation: every API call, API result, filter evaluation and handler invocation of TLC-generated and random executions of the real bus must be a behaviour of the specification.",
   note="Trusted: TLC, the Go recorder (events are appended under one mutex in real-time order), the mapping of handler closures to registration ids. Bounded model (MaxReg/MaxPub); conformance is sampling of executions, not a proof about the code.", ref="DESIGN.md 5/C01, 4.1"),
}

BUSNOTE="Trusted: TLC, the Go recorder (events appended under one mutex, i.e. in real-time order; call/return stamps bracket each API call), the mapping of handler closures to registration ids. The model is bounded (MaxReg/MaxPub/2-3 goroutines); conformance executions are samples of schedules (GOMAXPROCS 1/2/4/16, yields), not all schedules of the real code."
CHECKS.update({
 "C02": dict(technique="TLA+ spec Bus.tla: exhaustive TLC over all interleavings of 2-3 goroutines at call/linearize/return granularity (MCBus_c02) + design mutants; recorded concurrent histories of the real bus validated against BusTrace.tla (TLC searches the linearization points)",
   text="The real-time rules of the property (must deliver / must not deliver / at most once / count at quiescence) are invariants that TLC checks in every state of every interleaving of the bounded model; free-running multi-goroutine executions of the real bus (race detector on) are accepted only if some placement of the unlogged internal steps between the recorded call/return/filter/handler events makes them a behaviour of the specification.",
   note=BUSNOTE, ref="DESIGN.md 5/C02"),
 "C04": dict(technique="TLA+ spec Bus.tla: exhaustive TLC (MCBus_c04: racing publishers, Once + filter + async, cancel at any point) + mutant configs; TLC-generated and random sequential/concurrent executions validated against BusTrace.tla",
   text="At-most-once, retired-after-firing and not-used-up-without-running are invariants of the model checked over all interleavings; the code is bound by trace validation of sequential behaviours generated from the model (eligible / filtered-out / pre-cancelled publishes) and of concurrent stress histories.",
   note=BUSNOTE, ref="DESIGN.md 5/C04"),
 "C05": dict(technique="TLA+ spec Bus.tla: exhaustive TLC over all 16 handler option combinations x panics x panic handler x observability (MCBus_c05); TLC-generated and random executions with panicking handlers validated against BusTrace.tla; watchdog and child-process death as observations",
   text="The specification makes the recovery path explicit (exit, mutex release, panic handler, observability complete, wait-group decrement); every recorded execution with panicking handlers must follow it, a Publish/Wait that does not return within the watchdog and a driver process killed by an escaped panic are violations.",
   note=BUSNOTE+" Hang detection uses a 10 s watchdog on microsecond operations.", ref="DESIGN.md 5/C05"),
 "C06": dict(technique="TLA+ spec Bus.tla: exhaustive TLC (MCBus_c06: async handlers that publish further async work, Wait, Shutdown with a cancellable context, store with Close) + mutant addinside; recorded executions with Wait/Shutdown/cancel at arbitrary points validated against BusTrace.tla",
   text="WaitCovers and CloseOnlyWhenDrained are invariants over all interleavings of the model; in the trace specification Wait/Shutdown(nil) can only linearize when no spawned invocation is outstanding and Close only after that, so a return or Close recorded too early cannot be explained. Publish;Wait back to back at GOMAXPROCS=1 covers the goroutine-start race.",
   note=BUSNOTE, ref="DESIGN.md 5/C06"),
 "C07": dict(technique="TLA+ spec Bus.tla: exhaustive TLC (MCBus_c07: concurrent publishers, Sync+Sequential and Async+Sequential, ticket-ordered mutex) + mutants nomutex/nofifo; recorded executions with enter/exit marks validated against BusTrace.tla",
   text="NoOverlap and SeqFifo are invariants over all interleavings; in recorded executions an enter of a Sequential registration while another invocation of it is inside, or after a later publish of the same goroutine was processed, cannot be explained by the specification.",
   note=BUSNOTE, ref="DESIGN.md 5/C07"),
 "C08": dict(technique="TLA+ spec Bus.tla: exhaustive TLC (MCBus_c08: handlers cancelling/sampling contexts, pre-cancelled publishes, hook and observability configurations); TLC-generated and random executions over all 32 hook configurations validated against BusTrace.tla",
   text="Hooks, context checks and context lineage are actions/conjuncts of the specification: every before hook once before the snapshot, every after hook once after the last synchronous handler, no synchronous handler start once the context is cancelled, the handler context carries the publish context's values; recorded executions must be behaviours of it.",
   note=BUSNOTE, ref="DESIGN.md 5/C08"),
 "C20": dict(technique="TLA+ spec Bus.tla (observability callbacks as actions): exhaustive TLC (MCBus_c05, MCBus_c08); recorded callback traces of the real bus validated against BusTrace.tla",
   text="The callbacks are actions of the specification with their position in the publish/invocation frames; start callbacks plant tokens in the context they return and the trace specification requires each complete to present its start's token, handler tokens to descend from the publish token, and the error flag to equal 'the invocation panicked'.",
   note=BUSNOTE+" Persist callbacks and the OpenTelemetry implementation: see the persist and otel parts of the check.", ref="DESIGN.md 5/C20"),
})

STORENOTE="Trusted: TLC, the Go driver's projection (event identity = id embedded in the JSON payload; fidelity = type equal, JSON equal with number literals preserved, time.Equal instant), the third-party durable-streams test server (in-process httptest, small ChunkSize)."
CHECKS.update({
 "C10": dict(technique="TLA+ spec Log.tla (store contract with offsets as opaque tokens bound to positions): exhaustive TLC proof obligation MCLog (any contract-abiding store gives gap-free, repeat-free read chains); recorded call sequences of the real memory / SQLite / durable-streams stores validated against LogTrace.tla",
   text="Log.tla states the contract once; MCLog checks exhaustively (small scope) that the contract implies the resumability clause for every choice a store may make; every call of long random call sequences against the three real stores (two separately created stores per run, rich type/JSON/timestamp inputs, every handed-out token used as a resume point, concurrent appenders) is one trace line that must be an action of Log.tla. Byte-level breadth of the inputs is random generation, not model checking.",
   note=STORENOTE+" Listed findings (known_findings.jsonl): SQLite decimal offsets (9 -> 10), durable-streams synthetic per-event offsets and limit truncation; main runs steer around them, dedicated probes keep reporting them.", ref="DESIGN.md 5/C10, 4.3"),
 "C11": dict(technique="TLA+ spec Replay.tla (both paths of bus.Replay with faults) model-checked exhaustively; the same finite product of (store, length, start, batch, fault) executed on the real stores and validated against ReplayTrace.tla",
   text="Replay.tla model-checks the algorithm of persist.go over a contract-abiding store for every log length, start, batch size and fault position; the conformance step executes that whole product on memory, SQLite (stream, batched, paged) and durable-streams stores behind fault-injecting wrappers and accepts a run only if the callback saw exactly the next due event each time, nil was returned only after all of them, and every injected failure or cancellation was reported.",
   note=STORENOTE+" Exhaustive within N<=5 (quick) / N<=9 (thorough) events. SQLite row-level read errors are injected at the EventStore interface (wrapper), not inside database/sql.", ref="DESIGN.md 5/C11, 4.4"),
})

PNOTE="Trusted: TLC, the fault-injecting store wrapper (fails / blocks Append according to the publish kind carried in the context), the harness' reading of the store from inside handlers. JSON round-trip breadth over values is random generation."
CHECKS.update({
 "C09": dict(technique="TLA+ spec Persist.tla: exhaustive TLC over all permutations of the option sets x publish kinds (+ pre-fix mutant); option orders and fault patterns executed on the real bus and validated against PersistTrace.tla; concurrent publishers validated against LogTrace.tla",
   text="Persist.tla model-checks option application and the persist step for every option permutation; on the real bus every permutation of WithStore with up to two other options and random larger orders are executed with handlers that read the store from inside, and each run must be accepted by the acceptor that mirrors the model's invariants (one record per publish, readable before any handler, increasing offsets); records of concurrent publishers are read back and must form a behaviour of Log.tla (one record each, offsets increasing along the log and consistent with real time).",
   note=PNOTE, ref="DESIGN.md 5/C09, 4.5"),
 "C13": dict(technique="TLA+ spec Persist.tla (failure kinds: unencodable, append error, timeout): exhaustive TLC; fault patterns executed on the real bus over memory and SQLite stores behind a fault-injecting wrapper, validated against PersistTrace.tla",
   text="Contained / ReportedOnce / NoRetry / NothingWritten / LastOffsetOnlySuccess are invariants of Persist.tla over all option orders and fault patterns up to 3 publishes; the real bus is driven through random fault patterns (including failure on the first publish of a fresh bus and consecutive failures) and accepted only if every handler still ran, the error handler was called exactly once with the event and its type, Append was attempted at most once and never for an unencodable event, and the store's record count moved only on success.",
   note=PNOTE, ref="DESIGN.md 5/C13, 4.5"),
})

CHECKS.update({
 "C12": dict(technique="TLA+ spec Resume.tla (SubscribeWithReplay, publisher, crash between any two steps; as-is and mutant variants) model-checked exhaustively; random histories with restarts, crashes after arbitrary store operations and failing store operations on the real bus, validated against ResumeTrace.tla",
   text="Resume.tla states the design (load, replay deliver/save, go live, live deliver/save, crash anywhere) and TLC checks in-order / once / only-unsaved-redelivered / saved-monotone / no-loss over all interleavings with a publisher; the as-is variants reproduce the listed finding D11 and the fixed defect D10 as counterexamples. The code is bound by recording every store operation (with the log position its offset denotes) and every delivery of random histories - crashes are injected by ending the calling goroutine inside the store wrapper after a chosen store operation - and validating them against the property automaton ResumeTrace.tla.",
   note="Trusted: TLC, the store wrapper (offset -> position table built from Append results; runtime.Goexit as crash: durable state only changes inside store operations, so crash points between store operations are covered), memory and SQLite stores as both event and subscription store. Publishers are sequential (deliveries of concurrent publishers are not ordered by ebu's design). Listed findings: D11 (publish during SubscribeWithReplay), durable-streams resume offsets.", ref="DESIGN.md 5/C12, 4.5"),
})

CHECKS.update({
 "C14": dict(technique="TLA+ spec Durable.tla (writers, commit vs acknowledge, kill at any instant, reopen) model-checked exhaustively; real SIGKILL histories of a child process on the SQLite store validated against DurableTrace.tla",
   text="Durable.tla gives the legal post-crash states (every acknowledged event, at most the in-flight ones in addition, same order, idempotent open); the harness produces real process deaths - a child appends and saves offsets, reporting start/ack over a pipe, and is killed with SIGKILL after an arbitrary report - and validates each kill/reopen/append history (up to three generations per database) against the acceptor.",
   note="Process death only, not power loss (WAL + synchronous=NORMAL promises the former); the sandbox's filesystem; one writer per child. Trusted: TLC, the pipe protocol (reports are written unbuffered before/after each call and drained after the kill).", ref="DESIGN.md 5/C14, 4.6"),
})

UNOTE="Trusted: TLC, the harness' raw upcasters (append their id to a path array in the payload, return the type the script tells them to), a 3 s watchdog for termination."
CHECKS.update({
 "C16": dict(technique="TLA+ spec Upcast.tla (registry, transcribed DFS, apply loop with adversarial return types): exhaustive TLC over all small registries; TLC-generated and random operation sequences and racing registrations on the real bus validated against UpcastTrace.tla",
   text="TLC checks on every registry over 3-4 names with up to 3 edges (all returned-type / failure assignments) that the DFS of the code agrees with reachability, that the declared graph stays acyclic and that apply terminates; every RegisterUpcastFunc result of generated and random sequences (including nil functions, empty names, clears) must equal the specification's accept/reject decision, racing registrations must be linearizable against it, and every ReplayWithUpcast must return within the watchdog.",
   note=UNOTE, ref="DESIGN.md 5/C16, 4.7"),
 "C17": dict(technique="TLA+ spec Upcast.tla (ApplyResult: whole chain or nothing): exhaustive TLC; ReplayWithUpcast results on the real bus validated against UpcastTrace.tla; typed upcaster chains compared with f applied to the decoded source value",
   text="ApplyResult defines the composed data (sequence of upcaster ids), final type and the failure cases; for every apply of generated and random registries the callback of ReplayWithUpcast must have seen exactly that (or the untouched original event with offset and timestamp unchanged when any step failed, with one error-handler call). Typed RegisterUpcast chains are replayed over random payloads with omitted fields and maps and compared with json(f(decode(raw))).",
   note=UNOTE+" The typed-upcaster clause is a payload-level comparison (random generation), outside the model.", ref="DESIGN.md 5/C17, 4.7"),
})

CHECKS.update({
 "C15": dict(technique="TLA+ spec Names.tla (type-name derivation as a function of event shape and route, Go method-set rule explicit) evaluated by TLC over the full cross product, pre-fix variant as mutant; the same cross product executed on the real bus and validated against NamesTrace.tla",
   text="The cross product shape x route is finite and is enumerated completely both in the model and on the real code: for every shape (value/pointer x no/own EventTypeName on value/pointer receiver, plus the state package's messages by value and by pointer) the stored type must equal what EventType reports, SubscribeWithReplay[T] must deliver the persisted event exactly once, and typed upcasters from and to the type must be applied.",
   note="Trusted: TLC; one Go type per shape in the harness. Names that depend on the event's value (an envelope whose EventTypeName returns a field) have no single name per Go type and are outside this property's typed routes; the persisted name of such events is checked by C09.", ref="DESIGN.md 5/C15, 4.7"),
})

SNOTE="Trusted: TLC, the harness' projection of collection contents (All() and Get() per collection, entities mapped back to the model's value ids by deep equality), the real helper constructors as message builders."
CHECKS.update({
 "C18": dict(technique="TLA+ spec State.tla (Apply as an action, Fold as reference definition): exhaustive TLC over all message sequences up to MaxMsgs (MCState); random message logs through the real bus/store/materializer with the full projected state logged after every event, validated against StateTrace.tla",
   text="MCState checks for every message sequence (two registered and one unregistered type, keys containing the separator, strict / non-strict) that the collections equal the fold of the log, that LastOffset is the last successfully applied offset and that resuming from it loses nothing; on the real code every applied event of random logs (built with the real helpers, memory and SQLite stores) is one trace line whose logged full state must equal the state the specification computes, and a second materializer fed in two sessions must end in the same state.",
   note=SNOTE, ref="DESIGN.md 5/C18, 4.8"),
 "C19": dict(technique="TLA+ spec State.tla (rejection = UNCHANGED) via StateTrace.tla for message logs with undecodable and ill-typed events; randomized round trips of rich entities through helpers, bus, the three stores and the materializer; randomized and mutated byte inputs to Apply",
   text="The specification is the oracle for the state effect of every accepted message and for 'an error leaves every collection and LastOffset unchanged'. Round-trip fidelity over entity values, keys and option combinations and robustness against arbitrary bytes are covered by seeded random generation (projection flags validated by the trace specification), not by model checking.",
   note=SNOTE+" Byte-level breadth is random generation (quick: 5000 fuzz inputs, 400 round trips).", ref="DESIGN.md 5/C19, 4.8"),
})

CHECKS.update({
 "C03": dict(technique="TLA+ spec Locks.tla: TLC deadlock check over every lock of ebu with writer-preferring RWMutex semantics and re-entrant calls from user-code points (+ two mutants that must deadlock); the re-entrant patterns executed on the real bus under a watchdog; race clause: Go race detector on free-running mixes of all call kinds",
   text="The deadlock clause is decided on the design by TLC (all interleavings of 2 goroutines, nesting depth 2, every callback kind as a point where a re-entrant operation may start) and bound to the code by executing every (callback kind x re-entrant operation) pattern against queued writers with a 10 s watchdog. The data-race clause cannot be decided by TLA+: it is decided by the Go race detector observing free-running executions (no harness synchronisation) of mixes of every call kind the property lists, at GOMAXPROCS 2/4/16.",
   note="Trusted: TLC; the lock/step transcription of the operations in Locks.tla (checked against event_bus.go, persist.go, upcast.go, state/materializer.go by hand); the Go race detector (reports only races on executed schedules). Level 'model_checking' applies to the deadlock clause; the race clause is dynamic analysis.", ref="DESIGN.md 5/C03, 4.2"),
})
CHECKS["C20"]["technique"]="TLA+ spec Bus.tla / Persist.tla (observability callbacks as actions): exhaustive TLC; recorded callback traces of the real bus validated against BusTrace.tla and PersistTrace.tla; the real OpenTelemetry implementation run in front of the recorder on the SDK's span recorder and manual metric reader"
CHECKS["C20"]["text"]+=" Persist start/complete are checked by PersistTrace.tla (one pair per append attempt, none for unencodable events, error iff the append failed). The OpenTelemetry implementation is teed in front of the recording observability: started = ended spans, each ended once, handler/persist spans children of a publish span, error status and the counters equal the numbers of callbacks in the trace that BusTrace.tla accepted."

# --- additions of session 3: the persistence step inside Bus.tla, refused store calls, racing upcasts ---
PIPE=" The persistence step is also part of Bus.tla's publish pipeline (MCBus_pers: OnPersistStart / Append / OnPersistComplete / persistence error handler between the before hooks and the snapshot; invariants RecordedFirst, AppendOnce, LogSound; mutants livectxonly, retry): executions of the real bus with a recording store, scripted rejected and stuck appends, a persistence timeout, request contexts that end by cancellation or by deadline, over all 128 option combinations, are validated against BusTrace.tla."
for k in ("C08","C09","C13","C20"):
    CHECKS[k]["text"]+=PIPE
CHECKS["C08"]["technique"]+="; the same on buses with a store and a persistence timeout (MCBus_pers pipeline), with contexts that end by deadline (Err() = DeadlineExceeded)"
CHECKS["C09"]["technique"]+="; Bus.tla with the persistence step (MCBus_pers + mutants) and pipeline executions validated against BusTrace.tla; request-scoped contexts, durable-streams store"
CHECKS["C13"]["technique"]+="; Bus.tla with the persistence step (MCBus_pers + mutants): rejected / stuck appends under a persistence timeout and caller deadlines, validated against BusTrace.tla; events whose own MarshalJSON output is not JSON"
CHECKS["C10"]["text"]+=" One call in twelve is made with an already cancelled context: it either works normally or is a 'refused' line, which Log.tla allows only as a step without any effect (a refused SaveOffset is retried)."
CHECKS["C14"]["text"]+=" The child also calls SaveOffset with a cancelled context before some saves (refused = no effect) and retries; after every reopen the saved offset must be the last acknowledged one or the one in flight at the kill."
CHECKS["C15"]["text"]+=" All shapes are also published at the same time from separate goroutines on one persistent bus: every record must sit under its own event's name with its own data, and typed replay must deliver exactly them."
CHECKS["C16"]["text"]+=" Registrations and clears also race with an upcasting replay through a slow chain: it must terminate with the chain's result and leave nothing blocked."
CHECKS["C19"]["text"]+=" Inputs include inserts/updates without a value after valid traffic and entities whose JSON codec sits on pointer receivers."
CHECKS["C03"]["text"]+=" The free-running mix keeps Async+Sequential handlers busy while publish contexts are cancelled behind them."
DYN=" One publish in five of the random drivers passes the event through an interface value (Publish[any]): the specification makes no difference between the call forms (this is how defect D16 was found)."
for k in ("C01","C02","C04","C05","C06","C07","C08","C20"):
    CHECKS[k]["text"]+=DYN
SELF=" Binding self-test: a trace the run has just recorded and validated is falsified in several ways (one clause each) and the trace specification must reject every falsified copy; an accepted one is an error of the machinery (exit 2)."
for k in ("C01","C09","C13","C10","C11","C12","C14","C15","C16","C17","C18","C19"):
    CHECKS[k]["text"]+=SELF
CHECKS["C03"]["technique"]+="; recorded multi-goroutine executions under the race detector validated against BusTrace.tla (Bus.tla's Wait / Shutdown / Sequential-turn steps) with a watchdog"
CHECKS["C06"]["text"]+=" A failing store Close is modelled (StoreClose(g, ok)): it is what Shutdown returns."
checks=[]
for p in props:
    c=CHECKS.get(p['id'])
    if not c: continue
    checks.append({"property_id":p['id'],"quick_cmd":f"./check {p['id']} quick","thorough_cmd":f"./check {p['id']} thorough",
      "evidence_file":f"/verif/evidence/{p['id']}.json","replay_cmd_template":"./check replay {path}","engine":"tlc+go-harness",
      "level_claimed":{"category":c.get("level",MC),"text":c['text'],"design_ref":c['ref']},"level_note":c['note'],"technique":c['technique']})
NA={}
m={"version":1,"setup_cmd":"./setup.sh",
 "hooks":{"guard":"verif","enable":"go build -tags verif (the harness module replaces github.com/jilio/ebu and its store modules with /repo)",
  "baseline_off_cmd":"bash -c 'for m in $(cat /w/out/gomods.txt); do MF=$(cd /repo/$m && . /w/out/goenv.sh && gomodflag); (cd /repo/$m && go test $MF -json -vet=off -count=1 -timeout 25m ./...); done'",
  "source_commits":[],"add_only":True},
 "engines":[{"name":"tlc+go-harness","path":"/verif/harness","serves_properties":[c['property_id'] for c in checks],"kind_free_text":"TLA+ specifications under /verif/spec checked with TLC; Go harness replays TLC-generated behaviours into the real packages and validates recorded traces against the trace specifications"}],
 "checks":checks,
 "notes":"./check <Cxx> <quick|thorough>; evidence in /verif/evidence; replay artefacts in /verif/replays",
 "not_applicable":[{"property_id":p['id'],"reason":NA.get(p['id'],"check not built yet (work in progress; planned in DESIGN.md section 5)")} for p in props if p['id'] not in CHECKS]}
json.dump(m,open('/verif/MANIFEST.json','w'),indent=1)
print(len(checks),"checks")
