#!/usr/bin/env python3
"""Regenerates /verif/MANIFEST.json from the table below (one entry per claimed property)."""
import json
props=[json.loads(l) for l in open('/verif/properties.jsonl')]
MC="model_checking"
CHECKS={
 "C01": dict(technique="TLA+ spec Bus.tla: exhaustive TLC (MCBus_c01) + TLC-generated behaviours replayed on the real bus + random executions, all recorded traces validated against BusTrace.tla",
   text="TLC visits every reachable configuration of the bus model for one driver goroutine with re-entrant handler bodies (subscribe/unsubscribe/clear/clearall/publish/queries from inside handlers, once, async, filters, two types on one shard) and checks the delivery/registry invariants in each; the binding to the code is trace validation: every API call, API result, filter evaluation and handler invocation of TLC-generated and random executions of the real bus must be a behaviour of the specification.",
   note="Trusted: TLC, the Go recorder (events are appended under one mutex in real-time order), the mapping of handler closures to registration ids. Bounded model (MaxReg/MaxPub); conformance is sampling of executions, not a proof about the code.", ref="DESIGN.md 5/C01, 4.1"),
}
checks=[]
for p in props:
    c=CHECKS.get(p['id'])
    if not c: continue
    checks.append({"property_id":p['id'],"quick_cmd":f"./check {p['id']} quick","thorough_cmd":f"./check {p['id']} thorough",
      "evidence_file":f"/verif/evidence/{p['id']}.json","replay_cmd_template":"./check replay {path}","engine":"tlc+go-harness",
      "level_claimed":{"category":c.get("level",MC),"text":c['text'],"design_ref":c['ref']},"level_note":c['note'],"technique":c['technique']})
NA={}
m={"version":1,"setup_cmd":"./setup.sh",
 "hooks":{"guard":"verif","enable":"go build -tags verif (the harness module replaces github.com/jilio/ebu and its store modules with /repo)",
  "baseline_off_cmd":"bash -c 'for m in $(cat /w/out/gomods.txt); do MF=$(cd /repo/$m && . /w/out/goenv.sh && gomodflag); (cd /repo/$m && go test $MF -json -vet=off -count=1 -timeout 25m ./...); done'",
  "source_commits":[],"add_only":True},
 "engines":[{"name":"tlc+go-harness","path":"/verif/harness","serves_properties":[c['property_id'] for c in checks],"kind_free_text":"TLA+ specifications under /verif/spec checked with TLC; Go harness replays TLC-generated behaviours into the real packages and validates recorded traces against the trace specifications"}],
 "checks":checks,
 "notes":"./check <Cxx> <quick|thorough>; evidence in /verif/evidence; replay artefacts in /verif/replays",
 "not_applicable":[{"property_id":p['id'],"reason":NA.get(p['id'],"check not built yet (work in progress; planned in DESIGN.md section 5)")} for p in props if p['id'] not in CHECKS]}
json.dump(m,open('/verif/MANIFEST.json','w'),indent=1)
print(len(checks),"checks")
