#!/bin/bash
# verify_seed.sh <seed-dir> <id> <property>
# Confirms a seeded change independently, in a scratch worktree of /repo's HEAD:
#   demo passes without the patch; with the patch the whole existing suite passes and the demo fails.
# On success stores patch, demo and meta.json under /verif/seeded/<id>/.
S=$1; ID=$2; PROP=$3
export GOFLAGS=-mod=mod GOPROXY=off GOSUMDB=off GOTOOLCHAIN=local
W=$(mktemp -d /tmp/seedv.XXXXXX); rmdir $W
git -C /repo worktree add -q --detach $W HEAD || exit 2
cleanup() { git -C /repo worktree remove --force $W 2>/dev/null; rm -rf $W; }
trap cleanup EXIT
demos=$(ls $S/*_test.go 2>/dev/null)
[ -z "$demos" ] && { echo "$ID: no demo"; exit 3; }
[ -f $S/patch.diff ] || { echo "$ID: no patch"; exit 3; }
place() { # copy demos to the directory their package clause belongs to
  DIRS=""
  for d in $demos; do
    pkg=$(grep -m1 '^package ' $d | awk '{print $2}')
    case $pkg in
      eventbus|eventbus_test) dir=. ;;
      state|state_test) dir=state ;;
      sqlite|sqlite_test) dir=stores/sqlite ;;
      durablestream|durablestream_test) dir=stores/durablestream ;;
      otel|otel_test) dir=otel ;;
      *) dir=. ;;
    esac
    cp $d $W/$dir/zz_seed_$(basename $d)
    case " $DIRS " in *" $dir "*) ;; *) DIRS="$DIRS $dir" ;; esac
  done
}
rundemo() { rc=0; for dir in $DIRS; do (cd $W/$dir && timeout 600 go1.26 test -vet=off -count=1 -run 'TestSeed|TestDemo' . > $W/demo.$1.log 2>&1) || rc=1; cat $W/demo.$1.log >> $W/demo.$1.all; done; return $rc; }
place
rundemo clean; clean_rc=$?
rm -f $(for dir in $DIRS; do ls $W/$dir/zz_seed_*; done)
(cd $W && git apply $S/patch.diff) || { echo "$ID: patch does not apply to HEAD"; exit 4; }
suite_rc=0
for m in . otel stores/durablestream stores/sqlite; do
  ok=1
  for attempt in 1 2 3; do   # the pinned suite has a test that hangs now and then (TestAsyncSequentialHandlerContextCancelled): retry on a time-out
    (cd $W/$m && go1.26 build ./... && timeout 400 go1.26 test -vet=off -count=1 -timeout 5m ./... > $W/suite.log 2>&1); rc=$?
    if [ $rc -eq 0 ]; then ok=0; break; fi
    grep -q "panic: test timed out\|TestAsyncSequentialHandlerContextCancelled" $W/suite.log || break
  done
  [ $ok -eq 0 ] || { suite_rc=1; tail -20 $W/suite.log; }
done
place
rundemo patched; patched_rc=$?
echo "$ID prop=$PROP demo_clean_rc=$clean_rc suite_with_patch_rc=$suite_rc demo_patched_rc=$patched_rc"
if [ $clean_rc -eq 0 ] && [ $suite_rc -eq 0 ] && [ $patched_rc -ne 0 ]; then
  D=/verif/seeded/$ID; mkdir -p $D
  cp $S/patch.diff $D/patch.diff; cp $demos $D/; [ -f $S/notes.md ] && cp $S/notes.md $D/notes.md
  tail -c 3000 $W/demo.patched.all > $D/demo_failure.txt
  python3 - "$D" "$ID" "$PROP" "$(git -C /repo rev-parse --short HEAD)" <<'PY'
import json,sys,os,re
d,i,p,h=sys.argv[1:5]
notes=open(os.path.join(d,'notes.md')).read() if os.path.exists(os.path.join(d,'notes.md')) else ''
meta={"id":i,"property":p,"base_commit":h,
 "confirmed":{"demo_passes_without_change":True,"existing_suite_passes_with_change":True,"demo_fails_with_change":True},
 "what_i_ran":"tools/verify_seed.sh: scratch worktree of /repo HEAD; demo (go1.26 test -run TestSeed) without the patch -> pass; git apply patch.diff; all four modules' suites (go1.26 test ./...) -> pass; demo -> fail (see demo_failure.txt)",
 "needs_to_manifest":"see notes.md", "detected_by":[]}
json.dump(meta,open(os.path.join(d,'meta.json'),'w'),indent=1)
PY
  exit 0
fi
exit 5
