#!/bin/bash
# matrix.sh [tier] [ids...] — runs, for every seeded change, the check of the property it breaks (and extra checks
# listed in seeded/<id>/also_checks) against /repo with the change applied; records what was detected.
# Works on an isolated copy: a git worktree of /verif's HEAD (MATRIX_VERIF) and a clone of /repo (MATRIX_REPO).
TIER=${1:-quick}; shift
V=${MATRIX_VERIF:-/root/matrix/verif}; R=${MATRIX_REPO:-/root/matrix/repo}
if [ ! -d $V ]; then mkdir -p $(dirname $V); git -C /verif worktree add -q --detach $V HEAD || exit 2; fi
if [ ! -d $R ]; then git clone -q /repo $R || exit 2; fi
git -C $V checkout -q -f --detach $(git -C /verif rev-parse HEAD); git -C $R fetch -q origin; git -C $R checkout -q --detach $(git -C /repo rev-parse HEAD); git -C $R checkout -- .
IDS=${@:-$(ls /verif/seeded | grep -v MATRIX)}
OUT=/verif/seeded/MATRIX.$TIER.tsv
for id in $IDS; do
  d=/verif/seeded/$id; [ -f $d/patch.diff ] || continue
  prop=$(python3 -c "import json;print(json.load(open('$d/meta.json'))['property'])" 2>/dev/null)
  [ -z "$prop" ] && prop=$(cat $d/property 2>/dev/null)
  [ -z "$prop" ] && continue
  checks="$prop $(cat $d/also_checks 2>/dev/null)"
  if ! git -C $R apply --check $d/patch.diff 2>/dev/null; then echo -e "$id\t-\tDOES-NOT-APPLY" | tee -a $OUT; continue; fi
  for c in $checks; do
    git -C $R apply $d/patch.diff
    (cd $V && VERIF_REPO=$R VERIF_SEED=${VERIF_SEED:-1} timeout 3000 ./check $c $TIER > /tmp/matrix.$$.log 2>&1); rc=$?
    git -C $R checkout -- .
    clause=$(grep -m1 "clause=" /tmp/matrix.$$.log | sed 's/^ *//')
    echo -e "$id\t$c\texit=$rc\t$clause" | tee -a $OUT
  done
done
rm -f /tmp/matrix.$$.log
