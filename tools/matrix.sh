#!/bin/bash
# matrix.sh [tier] [ids...] — runs, for every seeded change, the check of the property it breaks (and extra checks
# listed in seeded/<id>/also_checks) against /repo with the change applied; records what was detected.
TIER=${1:-quick}; shift
IDS=${@:-$(ls /verif/seeded | grep -v MATRIX)}
OUT=/verif/seeded/MATRIX.$TIER.tsv
for id in $IDS; do
  d=/verif/seeded/$id; [ -f $d/patch.diff ] || continue
  prop=$(python3 -c "import json;print(json.load(open('$d/meta.json'))['property'])" 2>/dev/null)
  [ -z "$prop" ] && prop=$(cat $d/property 2>/dev/null)
  [ -z "$prop" ] && continue
  checks="$prop $(cat $d/also_checks 2>/dev/null)"
  if ! git -C /repo apply --check $d/patch.diff 2>/dev/null; then echo -e "$id\t-\tDOES-NOT-APPLY" | tee -a $OUT; continue; fi
  for c in $checks; do
    git -C /repo apply $d/patch.diff
    (cd /verif && VERIF_SEED=${VERIF_SEED:-1} timeout 3000 ./check $c $TIER > /tmp/matrix.$$.log 2>&1); rc=$?
    git -C /repo checkout -- .
    clause=$(grep -m1 "clause=" /tmp/matrix.$$.log | sed 's/^ *//')
    echo -e "$id\t$c\texit=$rc\t$clause" | tee -a $OUT
  done
done
rm -f /tmp/matrix.$$.log
