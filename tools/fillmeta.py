#!/usr/bin/env python3
"""Fills seeded/<id>/meta.json (detected_by, needs_to_manifest) from the matrix files and notes."""
import json,os,glob,re,collections
rows=collections.defaultdict(dict)
hist=collections.defaultdict(list)
for f in sorted(glob.glob('/verif/seeded/MATRIX.*.tsv')):
    tier=os.path.basename(f).split('.')[1]
    if tier not in ('quick','thorough'): continue
    for l in open(f):
        p=l.rstrip('\n').split('\t')
        if len(p)<3: continue
        sid,chk,res=p[0],p[1],p[2]
        clause=p[3] if len(p)>3 else ''
        rows[sid][(chk,tier)]=(res,clause)   # later lines override earlier ones
        hist[(sid,chk,tier)].append(res)
for d in sorted(glob.glob('/verif/seeded/*/')):
    sid=os.path.basename(d.rstrip('/'))
    mp=os.path.join(d,'meta.json')
    meta=json.load(open(mp)) if os.path.exists(mp) else {"id":sid}
    if 'property' not in meta and os.path.exists(os.path.join(d,'property')):
        meta['property']=open(os.path.join(d,'property')).read().strip()
        meta['origin']="reverse patch of a 'fix:' commit in /repo (the defect the check found on the pinned tree); the demonstration is the check itself"
    notes=os.path.join(d,'notes.md')
    if os.path.exists(notes) and meta.get('needs_to_manifest','see notes.md')=='see notes.md':
        txt=open(notes).read()
        m=re.search(r'(?is)(what (?:it|the change) needs[^\n]*\n.*?)(?:\n\n|\n#)',txt)
        meta['needs_to_manifest']=(m.group(1).strip()[:600] if m else 'see notes.md')
    det=[];miss=[]
    for (chk,tier),(res,clause) in sorted(rows.get(sid,{}).items()):
        if res=='exit=1': det.append(f"{chk} {tier}"+(f" ({clause.strip()})" if clause else ''))
        elif res=='exit=124':
            miss.append(f"{chk} {tier} (undecided: the run exceeded the matrix's time limit)")
        elif res.startswith('exit='):
            h=hist[(sid,chk,tier)]
            hits=sum(1 for x in h if x=='exit=1')
            miss.append(f"{chk} {tier}"+(f" (caught in {hits} of {len(h)} runs: the window is hit statistically)" if hits else ''))
    meta['detected_by']=det
    meta['not_detected_by']=miss
    json.dump(meta,open(mp,'w'),indent=1)
print("done")
