#!/bin/bash
# builds the harness binaries from files on disk only (offline)
cd "$(dirname "$0")" && exec ./check --build-only
